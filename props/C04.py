"""C04 - script errors are contained: no memory corruption, the host keeps control.

Not a history unit: the subject is programs.
 1. harness/C04.cpp (static library of /repo's current tree, ASan+UBSan) `optable` applies every
    operator / cast / index of ScriptVariable to every pair of representative values and prints
    result kind or exception class; the dump is translated into coq/C04/Generated.v on every
    run; Properties.v proves `check_tables Generated.tables = true` (the model's tables ARE the
    binary's, kernel-checked) and that no entry is anything but a value or a typed error;
 2. general theorems about the model (stack machine with the emitter's instruction order and the
    per-opcode error paths) : it refines the big-step specification, a statement always leaves
    the operand stack empty, an error never stops the thread, statements do not interfere;
 3. an UNTYPED program generator puts every representative value (and nested expressions) into
    every operator, index, field, command-receiver, argument and label position; every program is
    run on the real engine (markers around each statement, a second thread, a sentinel script
    afterwards, hook H4 probes) and on the extracted model + specification; per statement the
    warning classes, printed lines, completion and frame must agree; a sanitizer report, a
    signal, a hang, an exception leaving the host's call, a stack index != 0 at a thread's end,
    a damaged second thread or a failing sentinel is a violation (minimised with ddmin);
 4. raw sweeps (commands outside the model: removal of objects other threads wait on,
    self-removal, target groups, the command handlers of ScriptThread with every kind of
    argument) are checked for the safety observations only."""
import glob
import hashlib
import itertools
import json
import os
import random
import re

import vlib

LEVEL = "proof"
CID = "C04"

REPS = ["nil", "null", "i0", "i1", "i2", "i3", "im1", "i64", "ibig", "imin", "f0", "f1", "f1h", "fm2h",
        "se", "sa", "sabc", "s12", "svec", "st1", "sg", "sno", "ssub", "da", "dabc", "ch", "v0", "v123",
        "lth", "lent", "ldead", "lpl", "lgame", "llevel", "lparm", "lgroup", "lself",
        "arr", "earr", "ca123", "cal", "grp", "ptr"]
KIND = {"none": "KNone", "int": "KInt", "float": "KFloat", "char": "KChar", "cstr": "KCStr", "str": "KStr",
        "listener": "KListener", "array": "KArray", "carr": "KCArr", "cont": "KCont", "ptr": "KPtr", "vec": "KVec"}
WCLASS = {"Incompat": "WIncompat", "DivZero": "WDivZero", "Cast": "WCast", "Index": "WIndex", "InvType": "WInvType",
          "NullField": "WNullField", "NilCmd": "WNilCmd", "NullCmd": "WNullCmd", "Label": "WLabel", "NoTarget": "WNoTarget",
          "MultiTarget": "WMultiTarget", "BadHash": "WBadHash", "BadLabel": "WBadLabel", "File": "WFile", "Script": "WScript"}
BINOPS = ["add", "sub", "mul", "div", "mod", "and", "or", "xor", "shl", "shr", "eq", "ne", "lt", "gt", "le", "ge"]
BINCOQ = {"add": "BAdd", "sub": "BSub", "mul": "BMul", "div": "BDiv", "mod": "BMod", "and": "BAnd", "or": "BOr", "xor": "BXor",
          "shl": "BShl", "shr": "BShr", "eq": "BEq", "ne": "BNe", "lt": "BLt", "gt": "BGt", "le": "BLe", "ge": "BGe"}
UTAGS = ["neg", "compl", "inc", "dec", "not", "size", "c_int", "c_float", "c_string", "c_bool", "c_veclen", "c_char"]
UTAGCOQ = {"neg": "TNeg", "compl": "TCompl", "inc": "TInc", "dec": "TDec", "not": "TNot", "size": "TSize", "c_int": "TCInt",
           "c_float": "TCFloat", "c_string": "TCString", "c_bool": "TCBool", "c_veclen": "TCVecLen", "c_char": "TCChar"}
UNOPS = ["neg", "compl", "not", "size", "tgt"]
CASTS = ["int", "float", "string", "bool", "abs", "veclen", "typeof", "isdefined", "isarray"]
LCLASS = {"Thread": "LThread", "Entity": "LEntity", "Plain": "LPlain", "Game": "LGame", "Level": "LLevel", "Parm": "LParm", "Group": "LGroup"}


class BrokenTie(Exception):
    pass


# Generator origins that can be switched off (C04_SKIP=group,...).  Every finding reported by this
# unit has been fixed in /repo (the stored `$name` group that outlived its list: 8228a47, the value
# is a snapshot now); their programs are ordinary regression scenarios / corpus cases.
SKIP = set(x for x in os.environ.get("C04_SKIP", "").split(",") if x)
FINDINGS = {"emptystr", "engineobj", "fieldidx", "unsettarget", "group"} - SKIP
# open findings (reported, not yet fixed in /repo) would be listed here and generated only with
# C04_FINDINGS=<name>|all; there is none at the moment
OPEN = set()
_want = set(x for x in os.environ.get("C04_FINDINGS", "").split(",") if x)
FINDINGS |= OPEN if "all" in _want else (OPEN & _want)


def harness():
    return vlib.build_harness("C04", ["harness/C04.cpp"], "asan", use_lib=True)


# ------------------------------------------------------------------------------- the dump

def dres(words):
    """V kind rep | E class kind rep | X ... | S"""
    if words[0] == "V":
        return ("V", words[1], words[2])
    if words[0] == "E":
        return ("E", words[1], words[2], words[3])
    if words[0] == "S":
        return ("S",)
    return ("X", " ".join(words[1:]))


def parse_dump(out):
    d = {"kinds": {}, "bin": {}, "un": {}, "idx": {}, "attr": {}}
    ended = False
    for ln in out.splitlines():
        w = ln.split()
        if not w:
            continue
        if w[0] == "rep":
            if w[2] != w[3]:
                raise BrokenTie("representative %s was built as kind %s, declared %s" % (w[1], w[3], w[2]))
            d["kinds"][w[1]] = w[2]
        elif w[0] == "bin":
            d["bin"][(w[1], w[2], w[3])] = dres(w[4:])
        elif w[0] == "un":
            d["un"][(w[1], w[2])] = dres(w[3:])
        elif w[0] == "idx":
            d["idx"][(w[1], w[2])] = dres(w[3:])
        elif w[0] == "attr":
            d["attr"][(w[1], w[2])] = w[3:]
        elif w[0] == "endtable":
            ended = True
        elif w[0] == "X":
            raise BrokenTie("table dump: " + ln)
        else:
            raise BrokenTie("unexpected line in the table dump: " + ln[:200])
    if not ended:
        raise BrokenTie("table dump incomplete")
    if list(d["kinds"]) != REPS:
        raise BrokenTie("the harness's representative list differs from props/C04.py")
    for o in BINOPS:
        for a in REPS:
            for b in REPS:
                if (o, a, b) not in d["bin"]:
                    raise BrokenTie("missing table entry bin %s %s %s" % (o, a, b))
    for t in UTAGS:
        for a in REPS:
            if (t, a) not in d["un"]:
                raise BrokenTie("missing table entry un %s %s" % (t, a))
    for a in REPS:
        for b in REPS:
            if (a, b) not in d["idx"]:
                raise BrokenTie("missing table entry idx %s %s" % (a, b))
        for t in ("size", "arraysize", "long", "int", "lsn"):
            if (t, a) not in d["attr"]:
                raise BrokenTie("missing attribute %s %s" % (t, a))
    return d


def coq_rep(r):
    return "None" if r == "?" else "(Some R%s)" % r


def coq_dres(x):
    if x[0] == "V":
        if x[1] not in KIND:
            raise BrokenTie("result of an unexpected kind: %s" % (x,))
        return "DV %s %s" % (KIND[x[1]], coq_rep(x[2]))
    if x[0] == "E":
        if x[1] not in WCLASS or x[2] not in KIND:
            return "DX"
        return "DE %s %s %s" % (WCLASS[x[1]], KIND[x[2]], coq_rep(x[3]))
    if x[0] == "S":
        return "DS"
    return "DX"


def coq_cast(w):
    if w[0] == "E":
        return "CErr"
    if w[0] == "U":
        return "CUnk"
    return "(CVal (%s))" % w[1]


def coq_lsn(w):
    if w[0] == "E":
        return "(DLE %s)" % WCLASS[w[1]]
    if w[0] == "N":
        return "DLN"
    return "(DLL %s)" % LCLASS[w[1]]


def generated_v(d):
    o = ["(* C04/Generated.v - GENERATED on every run by props/C04.py from the table dump of the harness",
         "   built from /repo's current tree (harness/C04.cpp optable).  Do not edit. *)",
         "From Coq Require Import ZArith List.",
         "From Morfuse Require Import C04.Model C04.Table.",
         "Import ListNotations.",
         "Local Open Scope Z_scope.", ""]
    o.append("Definition g_kinds : list kind := [%s]." % "; ".join(KIND[d["kinds"][r]] for r in REPS))
    o.append("Definition g_bin : list bin_row := [")
    rows = []
    for op in BINOPS:
        for a in REPS:
            rows.append("  (%s, R%s, [%s])" % (BINCOQ[op], a, "; ".join(coq_dres(d["bin"][(op, a, b)]) for b in REPS)))
    o.append(";\n".join(rows))
    o.append("].")
    o.append("Definition g_un : list un_row := [")
    o.append(";\n".join("  (%s, [%s])" % (UTAGCOQ[t], "; ".join(coq_dres(d["un"][(t, a)]) for a in REPS)) for t in UTAGS))
    o.append("].")
    o.append("Definition g_idx : list idx_row := [")
    o.append(";\n".join("  (R%s, [%s])" % (a, "; ".join(coq_dres(d["idx"][(a, b)]) for b in REPS)) for a in REPS))
    o.append("].")
    o.append("Definition g_size : list Z := [%s]." % "; ".join("(%s)" % d["attr"][("size", a)][0] for a in REPS))
    o.append("Definition g_arraysize : list Z := [%s]." % "; ".join("(%s)" % d["attr"][("arraysize", a)][0] for a in REPS))
    o.append("Definition g_long : list castres := [%s]." % "; ".join(coq_cast(d["attr"][("long", a)]) for a in REPS))
    o.append("Definition g_int : list castres := [%s]." % "; ".join(coq_cast(d["attr"][("int", a)]) for a in REPS))
    o.append("Definition g_lsn : list dlsn := [%s]." % "; ".join(coq_lsn(d["attr"][("lsn", a)]) for a in REPS))
    o.append("")
    o.append("Definition tables : tables := mkTables g_kinds g_bin g_un g_idx g_size g_arraysize g_long g_int g_lsn.")
    return "\n".join(o) + "\n"


def write_if_changed(path, text):
    old = open(path).read() if os.path.exists(path) else None
    if old != text:
        with open(path, "w") as f:
            f.write(text)
        return True
    return False


def dump_tables(exe):
    """-> (dump dict, crash record or None)"""
    rc, out, err = vlib.sh([exe, "optable", "vecdiv", "shift"], env=vlib.ASAN_ENV, timeout=300)
    if rc != 0 or "endtable" not in out:
        last = [l for l in out.splitlines() if l.split()[:1] and l.split()[0] in ("bin", "un", "idx", "attr")]
        return None, {"property": CID, "kind": "crash", "signature": "C04:table-crash",
                      "why": "the table dump (every operator applied to every pair of representative values through the ScriptVariable interface) ended with rc=%s after entry `%s`:\n%s" % (
                          rc, last[-1] if last else "-", vlib._err_head(err)),
                      "table_entry_before_the_failing_one": last[-1] if last else None}
    return parse_dump(out), None


# ------------------------------------------------------------------------------ statements

def leaf_ok_for_label(r):
    return r != "se"            # the empty label restarts the whole script: unbounded recursion


VALS = ["nil", "i1", "f1h", "sa", "sabc", "ch", "v123", "lent", "ca123"]     # values stored by index / field writes
QUICK_REPS = ["nil", "null", "i0", "i1", "i3", "im1", "i64", "imin", "f0", "f1h", "fm2h", "se", "sa", "sabc", "s12", "svec",
              "st1", "sg", "sno", "da", "ch", "v0", "v123", "lth", "lent", "ldead", "lpl", "lgame", "arr", "earr", "ca123",
              "cal", "grp", "ptr"]
DELETE_RECV = ["lth", "lent", "lpl", "cal", "grp", "nil", "null", "ldead", "i1", "sa", "st1", "sg", "sno", "v123", "ca123", "ptr", "arr", "lself"]


def exact_statements(tier, rng):
    """-> list of (origin, statement line)"""
    R = REPS if tier != "quick" else QUICK_REPS
    out = []
    for op in BINOPS:
        for a in R:
            for b in R:
                out.append(("bin", "A ( b %s %s %s )" % (op, a, b)))
    for a in REPS:
        for u in UNOPS:
            out.append(("un", "P ( u %s %s )" % (u, a)))
        out.append(("incdec", "INC " + a))
        out.append(("incdec", "DEC " + a))
        out.append(("print", "P " + a))
        out.append(("if", "IF " + a))
        out.append(("field-read", "A ( f %s )" % a))
        for c in CASTS:
            out.append(("call", "A ( c %s %s )" % (c, a)))
        for v in (VALS if tier != "quick" else ["i1", "nil"]):
            out.append(("field-write", "WF %s %s" % (a, v)))
        out.append(("recv-notify", "M %s notify sno" % a))
        out.append(("recv-thread", "M %s thread ssub" % a))
        out.append(("recv-thread", "M %s waitthread sno" % a))
        if leaf_ok_for_label(a):
            out.append(("label", "C thread " + a))
            out.append(("label", "C waitthread " + a))
            out.append(("label", "C goto " + a))
            out.append(("label", "M lent thread " + a))
            out.append(("label", "M cal waitthread " + a))
        out.append(("wait", "C wait " + a))
    for a in R:
        for b in R:
            out.append(("index-read", "A ( x %s %s )" % (a, b)))
    for base in REPS:
        for i in R:
            if base == "se" and i in ("im1", "fm2h") and "emptystr" not in FINDINGS:
                continue
            for v in (VALS if tier != "quick" else ["i1", "sa", "nil"]):
                out.append(("index-write", "WI %s %s %s" % (base, i, v)))
    for a in REPS:
        out.append(("vector", "A ( v %s i1 f1h )" % a))
        out.append(("vector", "A ( v i1 %s f1h )" % a))
        out.append(("vector", "A ( v i1 f1h %s )" % a))
        out.append(("const-array", "A ( a %s i1 )" % a))
        out.append(("const-array", "P ( x ( a i1 %s sa ) i2 )" % a))
        out.append(("logic", "P ( l and %s i1 )" % a))
        out.append(("logic", "IF ( l or i0 %s )" % a))
    for r in DELETE_RECV:
        out.append(("delete", "M %s delete" % r))
    return out


def temporaries_cases(tier, k0):
    """expressions that consume, in place, a value whose only owner is an operand-stack temporary:
    index / field / size / cast / operator applied directly to the result of a thread call (hash
    array, nested array, constant array, string, vector, listener built in the callee, which ended at
    once or after a wait), to `a::b` arrays built in the expression and to concatenation results;
    the elements cover every heap-owning kind; each program checks the value it read (`@!`)."""
    def chk(expr, expect, w):
        return "local.x = %s\\nif (local.x != %s) {\\nprintln (\"@! %s read as \" + local.x)\\n}" % (
            expr.replace("%w", str(w)), expect, expr.replace("%w", str(w)).replace('\"', "'"))
    progs = []
    for w in (0, 1):
        for call in ("waitthread mkarr %w", "local waitthread mkarr %w", "waitexec prog::mkarr %w"):
            progs += [
                chk("(%s)[1]" % call, '\"onetwo\"', w),
                chk("(%s)[2]" % call, "( 1 2 3 )", w),
                chk("(%s)[2][1]" % call, "2.0", w),
                chk("(%s)[3]" % call, "level", w),
                chk("(%s)[4]" % call, "5", w),
                chk("(%s)[\"k\"][2]" % call, '\"deeper\"', w),
                chk("(%s)[\"k\"][3][2]" % call, "6.0", w),
                chk("(%s)[\"k\"][1]" % call, "7", w),
                chk("(%s)[5][1]" % call, '\"c1\"', w),
                chk("(%s)[5][2]" % call, "( 7 8 9 )", w),
                chk("(%s)[5][4][2]" % call, '\"n2\"', w),
                chk("(%s)[5][4][2][1]" % call, '\"2\"[0]', w),
                chk("(%s)[6]" % call, '\"x\"[0]', w),
                chk("(%s)[7][1][1]" % call, '\"inner\"', w),
                chk("(%s)[1][3]" % call, '\"t\"[0]', w),
                chk("(%s).size" % call, "8", w),
                chk("(%s)[\"k\"].size" % call, "3", w),
                chk("(%s)[1].size" % call, "6", w),
                chk("(%s)[9]" % call, "NIL", w),
                chk("(%s)[\"nokey\"][1]" % call, "NIL", w),
                chk("(%s)[1] + (%s)[\"k\"][2]" % (call, call), '\"onetwodeeper\"', w),
                chk("((%s)[2] + (%s)[\"k\"][3])[0]" % (call, call), "5.0", w),
                chk("(%s)[3].classname" % call, "level.classname", w),
                chk("int ((%s)[4])" % call, "5", w),
                chk("string ((%s)[1])" % call, '\"onetwo\"', w),
                chk("vector_length ((%s)[2])" % call, "vector_length ( 1 2 3 )", w),
                chk("typeof ((%s)[1])" % call, '\"string\"', w),
                "(%s)[3] notify \"x\"\\n(%s)[1] notify \"x\"\\n(%s)[5] notify \"x\"" % ((call.replace("%w", str(w)),) * 3),
                "(%s)[3].tmp = (%s)[1]\\nif (level.tmp != \"onetwo\") {\\nprintln \"@! field store from a temporary\"\\n}" % ((call.replace("%w", str(w)),) * 2),
                "for (local.i = 0; local.i < 20; local.i++) {\\nlocal.x = (%s)[1] + (%s)[\"k\"][2]\\n}\\nif (local.x != \"onetwodeeper\") {\\nprintln \"@! loop\"\\n}" % ((call.replace("%w", "0"),) * 2),
            ]
        progs += [
            chk("(waitthread mkone %w)[1]", '\"only1\"', w),
            chk("(waitthread mkone %w)[1][0]", '\"o\"[0]', w),
            chk("(waitthread mkcarr %w)[1]", '\"onetwo\"', w),
            chk("(waitthread mkcarr %w)[2]", "( 1 2 3 )", w),
            chk("(waitthread mkcarr %w)[2][2]", "3.0", w),
            chk("(waitthread mkcarr %w)[3]", "level", w),
            chk("(waitthread mkcarr %w)[4][1]", '\"n2\"', w),
            chk("(waitthread mkcarr %w)[4][2][0]", "4.0", w),
            chk("(waitthread mkcarr %w)[5]", "5", w),
            chk("(waitthread mkcarr %w).size", "5", w),
            chk("(waitthread mkcarr %w)[6]", "NIL", w),
            chk("(waitthread mkstr %w)[1]", '\"b\"[0]', w),
            chk("(waitthread mkstr %w).size", "4", w),
            chk("(waitthread mkstr %w) + (waitthread mkstr %w)", '\"abc1abc1\"', w),
            chk("int (waitthread mkstr %w)", "0", w),
            chk("(waitthread mkvec %w)[2]", "3.0", w),
            chk("(waitthread mkvec %w) + (waitthread mkvec %w)", "( 2 4 6 )", w),
            chk("vector_length (waitthread mkvec %w)", "vector_length ( 1 2 3 )", w),
            chk("(waitthread mklsn %w).foo", '\"f1\"', w),
            chk("(waitthread mklsn %w).foo[0]", '\"f\"[0]', w),
            chk("(waitthread mklsn %w).foo.size", "2", w),
            chk("(waitthread mklsn %w).classname", '\"SimpleEntity\"', w),
            "(waitthread mklsn %d).bar = (waitthread mkarr %d)[1]\\n(waitthread mklsn %d) remove\\n(waitthread mkarr %d) notify \"x\"" % (w, w, w, w),
        ]
    progs += [
        # arrays and strings built inside the expression
        chk("((\"a\" + 1)::( 1 2 3 )::level)[1]", '\"a1\"', 0),
        chk("((\"a\" + 1)::( 1 2 3 )::level)[2][1]", "2.0", 0),
        chk("((\"a\" + 1)::( 1 2 3 )::level)[3]", "level", 0),
        chk("((\"a\" + 1)::((\"b\" + 2)::( 4 5 6 )))[2][1]", '\"b2\"', 0),
        chk("((\"a\" + 1)::((\"b\" + 2)::( 4 5 6 )))[2][2][2]", "6.0", 0),
        chk("((\"a\" + 1)::( 1 2 3 )).size", "2", 0),
        chk("((\"ab\" + 1) + \"cd\")[3]", '\"c\"[0]', 0),
        chk("((\"ab\" + 1) + \"cd\").size", "5", 0),
        chk("(( 1 2 3 ) + ( 1 1 1 ))[1]", "3.0", 0),
        chk("((\"1 2 \" + 3) + \"\")[0]", '\"1\"[0]', 0),
        chk("vector_length (( 3 0 0 ) + ( 0 4 0 ))", "5.0", 0),
        chk("(local::level::game)[2]", "level", 0),
        chk("(local::level::game)[2].classname", "level.classname", 0),
        chk("(1::(\"s\" + 1))[2][0]", '\"s\"[0]', 0),
        chk("((local CreateListener)::level)[2]", "level", 0),
        chk("(spawn SimpleEntity targetname (\"tt\" + 1)).targetname", '\"tt1\"', 0),
        chk("(spawn SimpleEntity origin \"1 2 3\").origin[1]", "2.0", 0),
        "for (local.i = 0; local.i < 20; local.i++) {\\nlocal.x = ((\"a\" + local.i)::( 1 2 3 )::((\"b\" + local.i)::5))[3][1]\\n}\\nif (local.x != \"b19\") {\\nprintln (\"@! loop read \" + local.x)\\n}",
    ]
    cases = []
    k = k0
    tail = ["P i1", "A ( b div i1 i0 )"]
    for i in range(0, len(progs), 4):
        for h in ("warn=1 dbg=1", "warn=0 dbg=0"):
            cases.append(Case("x%d" % k, h, ["R " + p for p in progs[i:i + 4]] + tail, "raw-temporaries"))
            k += 1
    return cases


KILL_CMDS = ["killd", "killr", "killi", "killdv", "killrv", "killiv"]
HOWS = ["delete", "remove", "immediateremove"]


def deleted_by_callee_cases(tier, k0):
    """the running thread is destroyed, while its VM is suspended inside a call instruction, by a
    thread it (transitively) called.  Modelled shape (C kill.. <depth>): waitthread, the callee
    deletes the caller, alone or inside an expression; the other shapes are checked for safety."""
    cases = []
    k = k0
    tail = ["P i1", "A ( b add ( b div i1 i0 ) i2 )", "M lent notify sno"]
    hdrs = ["warn=1 dbg=1", "warn=0 dbg=0"]
    for c in KILL_CMDS:
        for d in ("i1", "i2", "i3"):
            for h in hdrs:
                for pre in ([], ["A ( b div i1 i0 )", "C wait f1h"]):
                    cases.append(Case("x%d" % k, h, pre + ["C %s %s" % (c, d)] + tail, "deleted-by-callee"))
                    k += 1
    raw = []
    for how in HOWS:
        for d in (1, 2, 3):
            raw += [
                # the victim is passed through level.x
                "level.par = local\\nlocal.t = waitthread killlevel \"%s\" %d\\nprintln local.t" % (how, d),
                "level.par = local\\nwaitthread killlevel \"%s\" %d" % (how, d),
                # waitexec (by file::label)
                "local.t = (1 + (waitexec prog::kill local \"%s\" %d)) * 2\\nprintln local.t" % (how, d),
                "waitexec prog::kill local \"%s\" %d" % (how, d),
                "local.t = local waitthread kill local \"%s\" %d\\nprintln local.t" % (how, d),
                "local.r_lent waitthread kill local \"%s\" %d" % (how, d),
                # a child started with plain `thread` pauses its still running parent, then deletes it
                "thread pausekill local \"%s\" %d\\nprintln \"after\"" % (how, d),
                "local.t = (1 + (thread pausekill local \"%s\" %d)) * 2\\nprintln local.t" % (how, d),
                "local.t = local.r_lent thread pausekill local \"%s\" %d\\nprintln local.t" % (how, d),
                # the callee deletes itself inside nested calls
                "local.t = (1 + (waitthread selfdel \"%s\" %d)) * 2\\nprintln local.t" % (how, d),
                "waitthread selfdel \"%s\" %d\\nprintln \"after\"" % (how, d),
                "thread selfdel \"%s\" %d\\nprintln \"after\"" % (how, d),
            ]
    for d in (1, 2, 3):
        raw += [
            # indirectly: the caller asked to be ended on a notification that the callee sends
            "level endon \"die\"\\nlocal.t = (1 + (waitthread notifier level %d)) * 2\\nprintln local.t" % d,
            "level endon \"die\"\\nwaitthread notifier level %d\\nprintln \"after\"" % d,
            "local.r_lent endon \"die\"\\nlocal.t = waitthread notifier local.r_lent %d\\nprintln local.t" % d,
            "local.r_lent endon \"die\"\\nthread notifier local.r_lent %d\\nprintln \"after\"" % d,
            "local endon \"die\"\\nwaitthread notifier local %d\\nprintln \"after\"" % d,
            "group endon \"die\"\\nlocal.t = waitexec prog::notifier group %d\\nprintln local.t" % d,
            "local.t = waitthread selfdel \"self\" %d\\nprintln local.t" % d,
            "local.t = (1 + (waitthread kill local \"killclass\" %d)) * 2\\nprintln local.t" % d,
            "waitthread kill local \"removeclass\" %d\\nprintln \"after\"" % d,
            "local.t = waitthread kill group \"delete\" %d\\nprintln local.t" % d,
            "local.t = waitthread kill local.r_cal \"remove\" %d\\nprintln local.t" % d,
        ]
    for sc in raw:
        for h in hdrs:
            cases.append(Case("x%d" % k, h, ["R " + sc] + tail, "raw-deleted-by-callee"))
            k += 1
            cases.append(Case("x%d" % k, h, ["A ( b div i1 i0 )", "C wait f1h", "R " + sc] + tail, "raw-deleted-by-callee"))
            k += 1
    return cases


def rnd_expr(rng, depth, reps):
    if depth <= 0 or rng.random() < 0.25:
        return rng.choice(reps)
    k = rng.random()
    sub = lambda: rnd_expr(rng, depth - 1, reps)
    if k < 0.45:
        return "( b %s %s %s )" % (rng.choice(BINOPS), sub(), sub())
    if k < 0.55:
        return "( u %s %s )" % (rng.choice(UNOPS), sub())
    if k < 0.67:
        return "( x %s %s )" % (sub(), sub())
    if k < 0.73:
        return "( f %s )" % sub()
    if k < 0.79:
        return "( v %s %s %s )" % (sub(), sub(), sub())
    if k < 0.85:
        return "( a %s %s%s )" % (sub(), sub(), (" " + sub()) if rng.random() < 0.5 else "")
    if k < 0.95:
        return "( c %s %s )" % (rng.choice(CASTS), sub())
    return "( l %s %s %s )" % (rng.choice(["and", "or"]), sub(), rng.choice(reps))


def rnd_statement(rng, reps):
    d = rng.choice([1, 2, 2, 3])
    e = lambda: rnd_expr(rng, d, reps)
    k = rng.random()
    if k < 0.25:
        return "A " + e()
    if k < 0.40:
        return "P " + e()
    if k < 0.50:
        return "IF " + e()
    if k < 0.62:
        return "WI %s %s %s" % (rng.choice([r for r in reps if r != "se" or "emptystr" in FINDINGS]), e(), e())
    if k < 0.72:
        return "WF %s %s" % (e(), e())
    if k < 0.82:
        return "M %s notify %s" % (e(), e())
    if k < 0.88:
        return "M %s %s %s" % (e(), rng.choice(["thread", "waitthread"]), rng.choice(["ssub", "sno", "i1", "nil", "ca123"]))
    if k < 0.94:
        return "C %s %s" % (rng.choice(["thread", "waitthread", "goto"]), rnd_expr(rng, 1, [r for r in reps if r != "se"]) if rng.random() < 0.5 else rng.choice(["ssub", "sno", "i1"]))
    return "C wait " + rng.choice(["i0", "f1h", "s12", "nil", "v0", "lth"])


# commands outside the model: safety observations only ---------------------------------------
THREAD_CMDS = ["abs", "angles_toforward", "angles_toleft", "angles_toup", "assert", "bool", "float", "int", "string", "CreateListener",
               "timeout", "goto", "mprint", "mprintln", "print", "println", "randomfloat", "randomint", "registercmd", "trigger",
               "spawn", "vector_add", "vector_closer", "vector_cross", "vector_dot", "vector_length", "vector_normalize",
               "vector_scale", "vector_subtract", "vector_toangles", "vector_within", "wait", "waitframe", "cache", "isarray",
               "isdefined", "flag_clear", "flag_init", "flag_set", "flag_wait", "lock", "unlock", "getarraykeys", "getarrayvalues",
               "gettime", "gettimezone", "preg_match", "getdate", "chartoint", "cos", "sin", "tan", "acos", "asin", "atan", "atan2",
               "cosh", "sinh", "tanh", "exp", "frexp", "ldexp", "log", "log10", "modf", "pow", "sqrt", "ceil", "floor", "fmod",
               "strncpy", "typeof", "md5string", "settimer", "delaythrow", "throw", "thread", "waitthread", "exec", "waitexec",
               "killclass", "removeclass", "error", "self", "pause", "end"]
LISTENER_CMDS = ["cancelFor", "commanddelay", "classname", "thread", "exec", "delete", "immediateremove", "remove", "endon",
                 "inheritsfrom", "isinheritedby", "notify", "owner", "delaythrow", "throw", "unregister", "waitthread", "waitexec",
                 "waitTill", "waittill_timeout", "waittill_any", "waittill_any_timeout", "angle", "angles", "origin", "targetname",
                 "target", "centroid", "forwardvector", "leftvector", "rightvector", "upvector"]
FIELDS = ["angle", "angles", "origin", "targetname", "target", "centroid", "forwardvector", "leftvector", "rightvector", "upvector",
          "classname", "owner", "other", "previousthread", "self", "foo"]
RECEIVERS = ["local.r_lent", "local.r_lth", "local.r_lpl", "local.r_ldead", "local.r_null", "local.r_nil", "local.r_grp", "local.r_cal",
             "local.r_lgame", "local.r_llevel", "local.r_lparm", "local.r_lgroup", "local.r_i1", "local.r_sa", "local.r_st1", "local.r_sg",
             "local.r_ptr", "local.r_arr", "local.r_v123", "self", "owner", "game", "level", "parm", "group", "local", "$g", "$t1", "$nobody"]

SCENARIOS = [
    # removal of objects other threads wait on
    "local.e = spawn SimpleEntity\\nthread waiton local.e\\nlocal.e remove",
    "local.e = spawn SimpleEntity\\nthread waiton local.e\\nlocal.e delete",
    "local.e = spawn SimpleEntity\\nthread waiton local.e\\nlocal.e immediateremove",
    "local.e = spawn SimpleEntity\\nthread waiton local.e\\nthread waiton local.e\\nlocal.e notify \"never\"\\nlocal.e remove",
    "local.e = spawn SimpleEntity\\nthread waiton local.e\\nlocal.e notify \"other\"\\nlocal.e notify \"never\"",
    "local.e = local CreateListener\\nthread waiton local.e\\nlocal.e delete\\nlocal.e notify \"never\"",
    "local.e = spawn SimpleEntity\\nlocal.e thread waiton local.e\\nlocal.e remove",
    "local.e = spawn SimpleEntity\\nlocal.x = local.e waitthread waiton local.e",
    "local.p = thread waiter\\nlocal.q = local.p\\nlocal.p = 5\\nprintln local.q",
    "local.p = thread waiter\\nlocal.p delete",
    "local.p = thread waiter\\nlocal.n = local.p.size\\nprintln local.p",
    "local.p = waitthread sub\\nprintln local.p",
    # self-removal
    "local remove", "local delete", "local immediateremove", "local.r_lth delete\\nprintln \"after\"",
    "local.me = local\\nlocal.me remove\\nprintln local.me",
    "thread selfkill", "waitthread selfkill", "local.x = waitthread selfkill\\nprintln local.x",
    "local.r_cal remove", "local.r_cal immediateremove",
    "group delete", "group remove", "local.r_lgroup delete\\nprintln \"after\"",
    "local endon \"x\"", "local waittill \"x\"", "local.r_lth waittill \"x\"", "local.r_lent endon \"x\"\\nlocal.r_lent notify \"x\"\\nprintln \"after\"",
    # objects owned by the engine
    "game remove", "game delete", "level remove", "level delete", "parm remove", "parm delete",
    "local.r_lgame delete\\nprintln game", "local.r_llevel remove\\nlevel.x = 1", "local.r_lparm immediateremove\\nprintln parm.other",
    # target groups
    "$g remove", "$g delete", "$g targetname \"zz\"", "$g targetname \"g\"", "local.r_grp remove\\nprintln local.r_grp.size",
    "local.r_grp targetname \"zz\"\\nprintln local.r_grp.size\\nprintln local.r_grp[1]",
    "local.x = $g[1]\\nlocal.x remove\\nprintln $g.size", "println $g[0]", "println $g[3]", "println $g[ -1]", "println $g.foo", "$g.bar = 1",
    "$g thread sub", "$g waitthread sub", "local.c = $g\\n$g remove\\nprintln local.c.size\\nlocal.c notify \"x\"",
    "local.c = $g\\nlocal.c[1] = 5", "local.c = $g\\nlocal.c[1] remove\\nlocal.c[1] remove", "$t1 remove\\n$t1 remove", "$t1.foo = 1\\nprintln $t1.foo",
    "$nobody remove", "$nobody.foo = 1", "println $nobody.foo", "$(\"\") remove", "println $(local.r_nil)", "$(local.r_v123) remove",
    # keyword receivers
    "println self", "println owner", "local.t = owner", "local.t = self", "self notify \"x\"", "owner notify \"x\"", "println self.foo",
    "println owner.foo", "self.bar = 1", "owner.bar = 1", "self.bar += 1", "owner.bar++", "local.t = owner.bar[1]", "owner.bar[1] = 2",
    "self.bar[1] = 2", "self.bar[1][2] = 3", "println game.foo", "level.bar = local.r_v123\\nlevel.bar[0] = 9\\nprintln level.bar",
    "parm.other = 5", "println parm.other", "println parm.owner", "println parm.previousthread", "parm.previousthread = 3",
    "println group.foo", "group.bar = 1", "println local.classname", "local.classname = 5", "println local.owner", "println local.self",
    # control flow over every kind
    "switch (local.r_v123) { case 1: println \"one\"\\nbreak\\ndefault: println \"dflt\"\\nbreak }",
    "switch (local.r_nil) { case \"NIL\": println \"nil\"\\nbreak\\ndefault: println \"dflt\"\\nbreak }",
    "switch (local.r_ptr) { default: println \"dflt\"\\nbreak }",
    "for (local.i = 0; local.i < 3; local.i++) { local.t = local.r_sabc[local.i] / 0 }",
    "for (local.i = 0; local.i < 30; local.i++) { local.t = owner }",
    "for (local.i = 0; local.i < 30; local.i++) { local.r_lent.centroid = 5 }",
    "for (local.i = 0; local.i < 30; local.i++) { local.t = local.r_nil.foo.bar }",
    "for (local.i = 0; local.i < 30; local.i++) { local.r_nil.foo = (1 / 0) }",
    "for (local.i = 0; local.i < 30; local.i++) { local.t = (1 / 0) + (2 %% 0) + (NIL + 1) }".replace("%%", "%"),
    "for (local.i = 0; local.i < 30; local.i++) { local.t = local.r_i1::(1/0)::(NIL.size) }",
    "for (local.i = 0; local.i < 30; local.i++) { local.r_i1 notify (1/0) }",
    "for (local.i = 0; local.i < 30; local.i++) { local.t = local.r_nil thread sub }",
    "for (local.i = 0; local.i < 30; local.i++) { local.t = self waitthread sub 1 2 3 4 5 6 7 }",
    "for (local.i = 0; local.i < 30; local.i++) { self thread sub 1 2 3 4 5 6 7 }",
    "for (local.i = 0; local.i < 30; local.i++) { local.t = vector_length (1 / 0) (2 / 0) }",
    "while (local.r_nil) { println \"never\" }", "while (local.r_ptr.size > 0) { println \"never\" }",
    "try { local.t = 1 / 0\\nthrow boom 1 2 } catch { boom local.a local.b:\\nprintln \"caught\" }",
    "try { throw nosuch } catch { boom:\\nprintln \"caught\" }\\nprintln \"after\"",
    "throw nosuch", "delaythrow nosuch", "local throw nosuch", "local.r_lent throw nosuch", "local.r_lent delaythrow nosuch 1",
    "local.a = makeArray\\n1 2 3\\nlocal.r_nil local.r_ptr\\nendArray\\nprintln local.a[2][2]\\nprintln local.a[3][1]",
    "local.a[1][2][3] = 4\\nprintln local.a[1][2][3]\\nprintln local.a[1][9][3]\\nlocal.a[1] = NIL\\nprintln local.a[1][2]",
    "local.a[local.r_v123] = 1", "local.a[local.r_ptr] = 1", "local.a[local.r_lent] = 1\\nlocal.r_lent remove\\nprintln local.a[local.r_lent]\\nprintln local.a.size",
    "local.s = \"abc\"\\nlocal.s[5] = \"x\"\\nlocal.s[ -1] = \"x\"\\nlocal.s[1] = \"xy\"\\nlocal.s[1] = 65\\nprintln local.s",
    "local.v = ( 1 2 3 )\\nlocal.v[3] = 1\\nlocal.v[ -1] = 1\\nlocal.v[\"1\"] = \"2\"\\nlocal.v[0] = local\\nprintln local.v",
    "local.c = 1::2::3\\nlocal.c[0] = 1\\nlocal.c[4] = 1\\nlocal.c[ -1] = 1\\nlocal.c[4294967297] = 9\\nprintln local.c[1]",
    "local.t = ( 1 2 3 ) / ( 1 2 0 )\\nprintln local.t\\nlocal.t = ( 1 2 3 ) % ( 0 0 0 )\\nprintln local.t\\nprintln ( 0 0 0 )",
    "local.t = 1 << 64\\nlocal.t = 1 >> ( -1)\\nlocal.t = ( -1) >> 5000000000\\nlocal.t = (1 << 63) / ( -1)\\nlocal.t = (1 << 63) % ( -1)\\nprintln local.t",
    "local.t = getarraykeys NIL\\nlocal.t = getarrayvalues ( 1 2 3 )\\nlocal.s = \"abc\" + 1\\nlocal.t = getarraykeys local.s\\nprintln local.t.size",
    "lock local\\nunlock local\\nlock local.r_lpl\\nunlock NIL\\nlock NULL", "local.t = chartoint \"\"\\nprintln local.t",
    "exec nosuch.scr", "local.x = waitexec nosuch.scr", "thread nosuch.scr::main", "local.x = waitthread prog::sub\\nprintln local.x", "exec prog::sub",
    "goto sub", "thread \"\" 1", "local.x = spawn NoSuchClass", "local.x = spawn SimpleEntity targetname", "local.x = spawn SimpleEntity spawntarget nobody",
    "local.x = spawn Listener", "local.x = spawn ScriptThread", "local.x = spawn Game\\nlocal.x remove", "local.x = spawn SimpleEntity origin \"a b c\" angle x",
    # a field store whose target is a group (d494aca: the assignment fans out to every member, highest index first)
    "$g.bar = 5\\nif ($g[1].bar != 5 || $g[2].bar != 5) {\\nprintln \"@! a member of the group was not assigned\"\\n}",
    "local.a = spawn SimpleEntity\\nlocal.b = spawn SimpleEntity\\nlocal.g = local.a::local.b\\nlocal.g.tag = 7\\nif (local.a.tag != 7 || local.b.tag != 7) {\\nprintln \"@! a member of the array was not assigned\"\\n}",
    "local.a = spawn SimpleEntity\\nlocal.b = spawn SimpleEntity\\nlocal.g = local.a::5::local.b\\nlocal.g.tag = 9\\nif (local.a.tag != 9) {\\nprintln \"@! the member before the failing one was not assigned\"\\n}\\nif (local.b.tag != NIL) {\\nprintln \"@! a member after the failing one was assigned\"\\n}",
    "local.a = spawn SimpleEntity\\nlocal.b = spawn SimpleEntity\\nlocal.g = local.a::NIL::local.b\\nlocal.g.tag = 9\\nif (local.a.tag != 9 || local.b.tag != NIL) {\\nprintln \"@! NIL member: wrong members assigned\"\\n}",
    "local.a = spawn SimpleEntity\\nlocal.b = spawn SimpleEntity\\nlocal.c = spawn SimpleEntity\\nlocal.g = local.a::local.c::local.b\\nlocal.c remove\\nlocal.g.tag = 9\\nif (local.b.tag != 9 || local.a.tag != 9) {\\nprintln \"@! a dead member stopped the assignment\"\\n}",
    "local.a = spawn SimpleEntity\\nlocal.b = spawn SimpleEntity\\nlocal.g = local.a::local.b::local::game::level::parm::group\\nlocal.g.tag = 1\\nif (local.tag != 1 || game.tag != 1 || level.tag != 1 || parm.tag != 1 || group.tag != 1) {\\nprintln \"@! a member of the 7-element array was not assigned\"\\n}",
    "for (local.i = 0; local.i < 3; local.i++) {\\nlocal.p = spawn SimpleEntity targetname \"q3\"\\n}\\n$q3.tag = 4\\nif ($q3[1].tag != 4 || $q3[2].tag != 4 || $q3[3].tag != 4) {\\nprintln \"@! a member of the group of 3 was not assigned\"\\n}",
    "for (local.i = 0; local.i < 4; local.i++) {\\nlocal.p = spawn SimpleEntity targetname \"q4\"\\n}\\n$q4.tag = (1 / 0)\\n$q4.tag += 1\\n$q4.tag[1] = 2\\nlocal.t = $q4.tag\\n$q4.origin = ( 1 2 3 )\\n$q4.origin = \"x\"\\nprintln $q4[4].origin",
    "$g.targetname = \"zz\"\\nif ($zz.size != 2) {\\nprintln \"@! renaming the group through the field did not reach both members\"\\n}\\n$zz.targetname = \"g\"",
    "$g.centroid = 5\\n$g.forwardvector = 1\\n$g.classname = 2",
    "for (local.i = 0; local.i < 30; local.i++) { $g.centroid = 5 }",
    "for (local.i = 0; local.i < 30; local.i++) { local.r_ca123.bar = local.i }",
    "for (local.i = 0; local.i < 30; local.i++) { local.r_cal.bar = (1 / 0)\\nlocal.r_arr.bar = 1 }",
    "local.m[1] = local.r_lent\\nlocal.m[2] = local.r_lpl\\nlocal.m.tag = 3\\nif (local.r_lent.tag != 3 || local.r_lpl.tag != 3) {\\nprintln \"@! a member of the hash array was not assigned\"\\n}",
    "local.m[1] = local.r_lent\\nlocal.m[\"x\"] = 5\\nlocal.m[2] = local.r_lpl\\nfor (local.i = 0; local.i < 30; local.i++) { local.m.tag = local.i }",
    "local.h = spawn C04Probe\\nlocal.e = spawn SimpleEntity\\nlocal.g = local.e::local.h\\nfor (local.i = 0; local.i < 30; local.i++) { local.g.c04bad = local.i }\\nlocal.g = local.h::local.e\\nfor (local.i = 0; local.i < 30; local.i++) { local.g.c04bad = local.i\\nlocal.g.c04ro = 1\\nlocal.g.c04wo = local.i }",
    "local.h = spawn C04Probe targetname \"hq\"\\nlocal.i = spawn C04Probe targetname \"hq\"\\nlocal.j = spawn SimpleEntity targetname \"hq\"\\nfor (local.k = 0; local.k < 30; local.k++) { $hq.c04bad = local.k\\n$hq.c04wo = 1\\n$hq.c04ro = 1 }",
    "local.g = local::local\\nlocal.g.me = local.g\\nlocal.g.me.me = 1\\nprintln local.me",
    "local.g = local.r_lent::local\\nlocal.g.bar = local\\nlocal.g remove\\nprintln \"never\"",
    # a host class whose getter / setter / commands throw (harness class C04Probe): the catch blocks of the field and command opcodes
    "local.h = spawn C04Probe\\nlocal.t = local.h.c04bad\\nprintln local.t",
    "local.h = spawn C04Probe\\nlocal.h.c04bad = 1\\nlocal.h.c04bad = NIL\\nlocal.h.c04bad += 1",
    "local.h = spawn C04Probe\\nlocal.t = local.h.c04wo\\nlocal.h.c04wo = 1\\nlocal.h.c04wo = local\\nlocal.h.c04ro = 1\\nprintln local.h.c04ro",
    "local.h = spawn C04Probe\\nlocal.h.c04bad[1] = 2\\nlocal.h.c04ro[1] = 2\\nlocal.h.c04wo[1] = 2\\nlocal.t = local.h.c04bad[1]\\nlocal.t = local.h.c04ro[1]",
    "local.h = spawn C04Probe\\nlocal.h c04throw\\nlocal.h c04throw 1 2 3\\nlocal.h c04throw 1 2 3 4 5 6 7\\nlocal.t = local.h c04throw 1 2\\nprintln local.t",
    "local.h = spawn C04Probe\\nlocal.t = local.h c04args 1 2 3 4 5 6 7\\nprintln local.t\\nlocal.t = local.h c04args 1 local NIL\\nprintln local.t",
    "local.h = spawn C04Probe targetname \"hp\"\\nlocal.i = spawn C04Probe targetname \"hp\"\\n$hp c04throw 1\\nlocal.t = $hp.c04bad\\n$hp.c04bad = 1\\nlocal.t = $hp c04throw",
    "local.h = spawn C04Probe\\nfor (local.i = 0; local.i < 30; local.i++) { local.t = local.h.c04bad }",
    "local.h = spawn C04Probe\\nfor (local.i = 0; local.i < 30; local.i++) { local.h.c04bad = local.i }",
    "local.h = spawn C04Probe\\nfor (local.i = 0; local.i < 30; local.i++) { local.t = local.h.c04wo\\nlocal.h.c04ro = 1 }",
    "local.h = spawn C04Probe\\nfor (local.i = 0; local.i < 30; local.i++) { local.h.c04bad[local.i] = 1\\nlocal.t = local.h.c04bad[1] }",
    "local.h = spawn C04Probe\\nfor (local.i = 0; local.i < 30; local.i++) { local.h c04throw local.i (1 / 0)\\nlocal.t = local.h c04throw 1 2 3 4 5 6 7 }",
    "local.h = spawn C04Probe\\nfor (local.i = 0; local.i < 30; local.i++) { local.t = (local.h.c04bad + 1) * (local.h c04throw) }",
    "local.h = spawn C04Probe\\nlocal.h.c04bad.foo = 1\\nlocal.t = local.h.c04bad.foo\\nlocal.h.c04ro.foo = 1\\nlocal.h.c04bad notify \"x\"",
    "end 1 2 3", "end local.r_ptr", "end local", "error \"boom\"", "wait -1", "wait local.r_ibig", "waitframe\\nwaitframe", "pause",
]
GROUP_DANGLE = ("local.a = spawn SimpleEntity targetname \"dg\"\\nlocal.b = spawn SimpleEntity targetname \"dg\"\\nlocal.grp = $dg\\n"
                "local.a targetname \"dh\"\\nlocal.b targetname \"dh\"\\n"
                "for (local.i = 0; local.i < 300; local.i++) {\\nlocal.c = spawn SimpleEntity targetname (\"dk\" + local.i)\\n"
                "local.d = spawn SimpleEntity targetname (\"dk\" + local.i)\\n"
                "if (local.grp.size != 2 || local.grp[1] != local.a || local.grp[2] != local.b) {\\n"
                "println (\"@! a stored group value shows a member of another group: size \" + local.grp.size)\\nbreak\\n}\\n}")


def raw_statements(tier, rng):
    out = []
    for s in SCENARIOS:
        if "engineobj" not in FINDINGS and re.search(r"(game|level|parm) (remove|delete|immediateremove)", s):
            continue
        out.append(("raw-scenario", "R " + s))
    if "group" in FINDINGS:
        out.append(("raw-scenario", "R " + GROUP_DANGLE))
    if "unsettarget" in FINDINGS:
        out.append(("raw-scenario", "R local.e = spawn SimpleEntity\\nlocal.s = \"\" + local.e.target\\nif (local.s != \"\") {\\nprintln (\"@! the target of a fresh entity reads as \" + local.s)\\n}"))
        out.append(("raw-scenario", "R local.e = spawn SimpleEntity\\nlocal.s = \"\" + local.e.targetname\\nif (local.s != \"\") {\\nprintln (\"@! the targetname of a fresh entity reads as \" + local.s)\\n}"))
    args = ["local.r_" + r for r in (REPS if tier != "quick" else QUICK_REPS)]
    for c in THREAD_CMDS:
        if c in ("error", "end", "pause", "killclass", "removeclass", "goto"):
            continue
        for a in args:
            out.append(("raw-thread-command", "R %s %s" % (c, a)))
            out.append(("raw-thread-command", "R local.t = %s %s" % (c, a)))
        out.append(("raw-thread-command", "R %s" % c))
        out.append(("raw-thread-command", "R local.t = %s" % c))
        for _ in range(2 if tier == "quick" else 8):
            out.append(("raw-thread-command", "R local.t = %s %s" % (c, " ".join(rng.choice(args) for _ in range(rng.choice([2, 3, 4, 7]))))))
            out.append(("raw-thread-command", "R %s %s" % (c, " ".join(rng.choice(args) for _ in range(rng.choice([2, 3, 6]))))))
    for c in ("killclass", "removeclass"):
        for a in ("SimpleEntity", "Listener", "ScriptThread", "NoSuch", "local.r_nil", "local.r_lent", "Game", "Level"):
            out.append(("raw-thread-command", "R %s %s" % (c, a)))
            out.append(("raw-thread-command", "R %s %s local.r_lent" % (c, a)))
    for c in LISTENER_CMDS:
        for rcv in RECEIVERS:
            if c in ("delete", "remove", "immediateremove") and rcv in ("game", "level", "parm", "local.r_lgame", "local.r_llevel", "local.r_lparm"):
                continue            # in SCENARIOS (kept apart: they end the engine's own objects)
            a = rng.choice(args)
            out.append(("raw-listener-command", "R %s %s" % (rcv, c)))
            out.append(("raw-listener-command", "R %s %s %s" % (rcv, c, a)))
            if tier != "quick" or rng.random() < 0.3:
                out.append(("raw-listener-command", "R local.t = %s %s %s %s" % (rcv, c, rng.choice(args), rng.choice(args))))
    for f in FIELDS:
        if f == "target" and "unsettarget" not in FINDINGS:
            continue
        for rcv in RECEIVERS:
            if rcv.startswith("$") or rcv in ("self", "owner", "game", "level", "parm", "group", "local"):
                tgt = rcv + "." + f
            else:
                tgt = rcv + "." + f
            out.append(("raw-field", "R local.t = %s" % tgt))
            out.append(("raw-field", "R %s = %s" % (tgt, rng.choice(args))))
            if tier != "quick" or rng.random() < 0.3:
                if f == "foo" or "fieldidx" in FINDINGS:
                    out.append(("raw-field", "R %s[%s] = %s" % (tgt, rng.choice(args), rng.choice(args))))
                out.append(("raw-field", "R local.t = %s[%s]" % (tgt, rng.choice(args))))
                out.append(("raw-field", "R %s += %s" % (tgt, rng.choice(args))))
    return out


# ------------------------------------------------------------------------------ cases

class Case(vlib.Case):
    pass


def build_cases(tier, seed):
    rng = random.Random(seed)
    cases = []
    # corpus: one statement list per file, first line may be `# header: warn=.. dbg=..`
    for p in sorted(glob.glob(os.path.join(vlib.VERIF, "corpus", "C04", "*.txt"))):
        hdr = "warn=1 dbg=1"
        ops = []
        for l in open(p):
            l = l.rstrip("\n")
            if l.startswith("# header:"):
                hdr = l[len("# header:"):].strip()
            elif l.strip() and not l.startswith("#"):
                ops.append(l)
        raw = any(o.startswith("R ") for o in ops)
        cases.append(Case("k_" + os.path.basename(p)[:-4], hdr, ops, ("raw-" if raw else "") + "corpus"))
    ex = exact_statements(tier, rng)
    by_origin = {}
    for o, s in ex:
        by_origin.setdefault(o, []).append(s)
    k = 0
    per = 24
    configs = ["warn=1 dbg=1", "warn=1 dbg=1", "warn=0 dbg=0", "warn=1 dbg=0"] if tier == "quick" else None
    for o in sorted(by_origin):
        lst = by_origin[o]
        for i in range(0, len(lst), per):
            chunk = lst[i:i + per]
            if tier == "quick":
                hdrs = [configs[(k + j) % len(configs)] for j in range(1)]
            else:
                hdrs = ["warn=1 dbg=1", "warn=0 dbg=0"] + (["warn=1 dbg=0"] if (i // per) % 4 == 0 else [])
            for h in hdrs:
                cases.append(Case("x%d" % k, h, chunk, o))
                k += 1
    # every origin mixed: statements of all kinds in one thread, random order
    flat = [s for _, s in ex if not (s.startswith("M ") and s.endswith(" delete")) and not s.startswith("C wait")]
    nmix = 150 if tier == "quick" else 5000
    for _ in range(nmix):
        chunk = [rng.choice(flat) for _ in range(30)]
        if rng.random() < 0.5:
            chunk.insert(rng.randrange(len(chunk)), "C wait " + rng.choice(["i0", "f1h", "s12", "nil", "sabc", "i3"]))
        if rng.random() < 0.3:
            chunk.insert(rng.randrange(10, len(chunk)), rng.choice(["M lth delete", "C end", "M cal delete"]))
        cases.append(Case("x%d" % k, rng.choice(["warn=1 dbg=1", "warn=1 dbg=1", "warn=0 dbg=0", "warn=1 dbg=0"]), chunk, "mixed"))
        k += 1
    # nested expressions
    nn = 400 if tier == "quick" else 25000
    for _ in range(nn):
        reps = REPS if rng.random() < 0.5 else QUICK_REPS
        chunk = [rnd_statement(rng, reps) for _ in range(20)]
        cases.append(Case("x%d" % k, rng.choice(["warn=1 dbg=1", "warn=1 dbg=1", "warn=0 dbg=0", "warn=1 dbg=0"]), chunk, "nested"))
        k += 1
    # outside the model: safety observations only
    raw = raw_statements(tier, rng)
    by_origin = {}
    for o, s in raw:
        by_origin.setdefault(o, []).append(s)
    for o in sorted(by_origin):
        lst = by_origin[o]
        if o == "raw-scenario":
            for s in lst:                                # each scenario alone and followed by ordinary statements
                for h in ("warn=1 dbg=1", "warn=0 dbg=0"):
                    cases.append(Case("x%d" % k, h, [s], o))
                    k += 1
                    cases.append(Case("x%d" % k, h, [s, "P i1", "A ( b div i1 i0 )", "M lent notify sno", "P ( x sabc i1 )"], o))
                    k += 1
            continue
        rng.shuffle(lst)
        for i in range(0, len(lst), 12):
            cases.append(Case("x%d" % k, "warn=1 dbg=1" if (i // 12) % 3 else "warn=0 dbg=0", lst[i:i + 12], o))
            k += 1
    tc = temporaries_cases(tier, k)
    cases += tc
    k += len(tc)
    dc = deleted_by_callee_cases(tier, k)
    cases += dc
    k += len(dc)
    nr = 150 if tier == "quick" else 8000
    allraw = [s for _, s in raw]
    for _ in range(nr):
        chunk = []
        for _ in range(14):
            chunk.append(rng.choice(allraw) if rng.random() < 0.5 else rnd_statement(rng, QUICK_REPS))
        cases.append(Case("x%d" % k, rng.choice(["warn=1 dbg=1", "warn=0 dbg=0"]), chunk, "raw-mixed"))
        k += 1
    return cases


# ------------------------------------------------------------------------------ judging a case

EXPECTED_HOST = re.compile(r"^(ok)$")


def parse_e(line):
    d = {}
    for w in line.split()[1:]:
        if "=" in w:
            k, v = w.split("=", 1)
            d[k] = v
    return d


def judge(case, impl_lines, model_lines):
    """-> list of (kind, why) problems; statistics dict"""
    probs = []
    st = {"stmts": 0, "exact": 0, "unpredicted": 0, "warned": 0, "classes": {}}
    raw = case.origin.startswith("raw")
    e = [l for l in impl_lines if l.startswith("e ")]
    if not e:
        return [("no-report", "the harness printed no summary line")], st
    if e[0].startswith("e bad-input"):
        return [("bad-input", "the harness rejected the statement list (generator / harness grammar mismatch)")], st
    d = parse_e(e[0])
    st["not_compilable_statements"] = int(d.get("nc", "0"))
    if d.get("host", "").startswith("not-compilable"):
        st["not_compilable_programs"] = 1
        if raw:
            return probs, st                 # only compilable programs are the subject
        return [("bad-input", "a program of the modelled grammar did not compile: " + d.get("host"))], st
    if d.get("host") != "ok":
        probs.append(("host-exception", "an exception left the host's call: " + d.get("host", "?")))
    vm = d.get("vmend", "0/0").split("/")
    st["threads_ended_by_themselves"] = int(vm[0])
    st["threads_destroyed_mid_statement"] = int(d.get("killed", "0"))
    if vm[-1] != "0":
        probs.append(("stack-at-thread-end", "a thread that ended by itself (end of code / `end`) left operand stack index %s (hook H4; %s such VMs)" % (vm[-1], vm[0])))
    if d.get("stepbad", "0") != "0":
        probs.append(("stack-overrun", "%s instructions were executed with the stack index at or beyond the declared stack size" % d.get("stepbad")))
    if d.get("other") != "123":
        probs.append(("other-thread", "the unrelated second thread printed '%s' instead of its three markers" % d.get("other")))
    if not d.get("fail", "0").startswith("0"):
        probs.append(("scenario-assertion", "a scenario that checks itself failed: " + d.get("fail", "").replace("_", " ")))
    if d.get("sentinel") != "42":
        probs.append(("sentinel", "the sentinel script compiled and run afterwards in the same engine printed '%s' instead of 42" % d.get("sentinel")))
    im = [l[2:] for l in impl_lines if l.startswith("m ")]
    for l in im:
        st["stmts"] += 1
        w = l.split()
        ws = [x for x in w if x.startswith("w=")][0][2:]
        if ws != "-":
            st["warned"] += 1
            for c in ws.split(","):
                st["classes"][c] = st["classes"].get(c, 0) + 1
    if raw:
        return probs, st
    if not d.get("stray", "0").startswith("0"):
        probs.append(("stray-warning", "a warning was raised outside the bracketed statements (in the set-up of the representative values): " + d.get("stray", "")))
    mm = [l[2:] for l in model_lines if l.startswith("m ")]
    ss = [l[2:] for l in model_lines if l.startswith("s ")]
    if any(l.startswith("bad") for l in model_lines):
        probs.append(("bad-input", "the driver rejected the statement list: %s" % [l for l in model_lines if l.startswith("bad")][:1]))
        return probs, st
    if mm != ss:
        probs.append(("model-vs-spec", "the extracted machine and the extracted specification differ (theorem C04_machine_refines_the_statement_specification broken?)"))
    if len(mm) != len(im):
        probs.append(("correspondence", "model printed %d statements, implementation %d" % (len(mm), len(im))))
        return probs, st
    for k, (a, b) in enumerate(zip(im, mm)):
        if b.endswith("?"):
            st["unpredicted"] += 1
            continue
        st["exact"] += 1
        if a != b:
            probs.append(("correspondence", "statement %d `%s`: the engine did `%s`, the model predicts `%s`" % (k, case.ops[k], a, b)))
            break
    return probs, st


def run_cases(exe, drv, cases, need_model=True):
    """-> {id: (problems, stats, crashinfo)}"""
    io, icr = vlib.run_resilient(exe, [], cases, env=vlib.ASAN_ENV, timeout=900, max_crashes=8)
    mo = {}
    if need_model:
        mo, mcr = vlib.run_resilient(drv, [], [c for c in cases if not c.origin.startswith("raw")], timeout=600)
    res = {}
    for c in cases:
        if c.id in icr:
            ci = icr[c.id]
            if ci.get("skipped"):
                res[c.id] = ([("skipped", "not run")], {}, ci)
                continue
            kind = "timeout" if ci.get("timeout") else "crash"
            summ = re.findall(r"SUMMARY: [^\n]*", ci.get("stderr", ""))
            res[c.id] = ([(kind, "the engine %s while running the program (rc=%s): %s\n%s" % (
                "hung (watchdog)" if kind == "timeout" else "died", ci.get("rc"), summ[-1] if summ else "", vlib._err_head(ci.get("stderr", ""))))], {}, ci)
            continue
        if c.id not in io:
            res[c.id] = ([("no-report", "no output for the case")], {}, None)
            continue
        probs, st = judge(c, io[c.id], mo.get(c.id, []))
        res[c.id] = (probs, st, None)
    return res


def script_of(exe, case):
    rc, out, err = vlib.sh([exe], inp=Case("s", case.header + " show=1", case.ops).text(), env=vlib.ASAN_ENV, timeout=60)
    return "\n".join(l[2:] for l in out.splitlines() if l.startswith("# "))


def signature(kind, why):
    if kind in ("crash", "timeout"):
        m = re.search(r"(AddressSanitizer: [a-z\-]+|runtime error: [^\n]{0,60}|SEGV|watchdog)", why)
        ms = re.search(r"SUMMARY: AddressSanitizer: ([a-z\-]+) [^\n]* in ([A-Za-z_:~<>]+)", why)
        if ms:
            return "C04:%s:AddressSanitizer: %s:%s" % (kind, ms.group(1), ms.group(2))
        where = re.search(r"#\d+ 0x[0-9a-f]+ in ([A-Za-z_:~<>]+)[^\n]*?/repo/", why)
        frames = re.findall(r" in (mfuse::[A-Za-z_:~]+)", why)
        return "C04:%s:%s:%s" % (kind, m.group(1) if m else "?", frames[0] if frames else "?")
    return "C04:" + kind


def check(res, tier, seed):
    res.cov["rule"] += (
        "C04: (1) table dump of the binary (16 binary operators x 43 x 43 representative values, 12 unary operators/casts x 43, index read 43 x 43, "
        "5 attributes x 43) -> Generated.v, kernel-checked against the model; (2) every representative value in every operator / unary / index-read / "
        "index-write / field / receiver / cast / label / wait / condition position (quick: binary operators, index positions over 34 of the 43 values), "
        "grouped 24 statements to a thread, in the configurations Warn+Debug attached / nothing attached / Warn only; mixed threads with waits, `end` and "
        "deletion of the running thread; seeded random nested expressions of depth <= 3 in all statement forms; all compared per statement with the "
        "extracted machine and specification; (3) outside the model, safety observations only: %d hand-written scenarios (removal of objects other threads "
        "wait on, self-removal, engine-owned objects, target groups, keyword receivers, loops of failing statements), every command of ScriptThread / Listener / "
        "SimpleEntity with every representative value as argument and as receiver, every built-in field read / written / indexed on every receiver. "
        % len(SCENARIOS))
    res.assumptions += [
        "SAMPLED, not proved: the correspondence between the model and the engine at statement level (the value tables themselves are kernel-checked against the dump of the same binary); "
        "the safety observations (no sanitizer report, no signal, no hang, host call returns, stack index 0 at every thread end (hook H4), second thread intact, sentinel script runs) on the generated programs",
        "the model predicts warning CLASSES, printed line counts, completion and frame of each statement - not values and texts (C03's subject); where a result depends on a value the model does not track "
        "(e.g. a computed divisor) it makes no prediction and only the safety observations are checked (counted as `unpredicted`)",
        "representative values: 43 values of 12 kinds (harness/C04.cpp rep table); SafeContainer and Ref values cannot be produced by a script on this tree and are not covered",
        "interference between THREADS is observed, not modelled: the model has no state shared between threads; the unrelated second thread and the sentinel script are checked directly",
        "conversions the C++ standard leaves undefined (a negative float cast to an unsigned index or wait time) are not predicted; UBSan's float-cast-overflow check is not part of -fsanitize=undefined",
        "ASan cannot see a use of a freed BlockAlloc slot (the pools keep the memory; hook H2 is not available): stale pool references are only caught by scenarios that check their own results (`@!` lines), such as the stored `$name` group scenario",
        "a ScriptAbortException raised on purpose (`error a b`) or by the execution-time protection is outside the generator (C14's subject); unbounded recursion (`thread \"\"`) likewise",
    ]
    exe = harness()
    # 1. tables of the binary -> Generated.v
    d, crash = dump_tables(exe)
    if crash:
        vlib.proof_stage(res, "C04", extra_targets=["C04/Extract.vo"], dirs=["Base", "C04"])
        res.violation(crash)
        return
    res.cov["generated_v_rewritten"] = write_if_changed(os.path.join(vlib.COQ, "C04", "Generated.v"), generated_v(d))
    nx = sum(1 for t in ("bin", "un", "idx") for v in d[t].values() if v[0] in ("X", "S"))
    ne = sum(1 for t in ("bin", "un", "idx") for v in d[t].values() if v[0] == "E")
    res.cov["table"] = {"entries": sum(len(d[t]) for t in ("bin", "un", "idx")), "typed_errors": ne, "untyped_or_skipped": nx,
                        "attributes": len(d["attr"])}
    # 2. proofs
    pst = vlib.proof_stage(res, "C04", extra_targets=["C04/Extract.vo"], dirs=["Base", "C04"])
    drv = vlib.ocaml_driver("C04")
    # 3. programs
    cases = build_cases(tier, seed)
    origins = {}
    for c in cases:
        origins[c.origin] = origins.get(c.origin, 0) + 1
    res.cov["input_distribution"] = {"cases_by_origin": origins, "statements": sum(len(c.ops) for c in cases)}
    # measured coverage of the quantifier: distinct statement shapes (every representative value
    # replaced by its kind) among the modelled statements, and distinct (position, kind) pairs
    shapes, poskind = set(), set()
    for c in cases:
        if c.origin.startswith("raw"):
            continue
        for o in c.ops:
            w = o.split()
            shapes.add(" ".join("<%s>" % d["kinds"][t] if t in d["kinds"] else t for t in w))
            ctx = []
            for i, t in enumerate(w):
                if t in d["kinds"]:
                    poskind.add((w[0], " ".join(x for x in w[max(0, i - 3):i] if x not in d["kinds"] and x not in ("(", ")")), d["kinds"][t]))
    res.cov["distinct_statement_shapes_over_kinds"] = len(shapes)
    res.cov["distinct_position_kind_pairs"] = len(poskind)
    tot = {"stmts": 0, "exact": 0, "unpredicted": 0, "warned": 0, "classes": {}, "nc": 0}
    bad = []
    seen = set()
    B = 400
    for i in range(0, len(cases), B):
        chunk = cases[i:i + B]
        out = run_cases(exe, drv, chunk)
        for c in chunk:
            probs, st, ci = out[c.id]
            for k in ("stmts", "exact", "unpredicted", "warned"):
                tot[k] += st.get(k, 0)
            tot["nc"] += st.get("not_compilable_statements", 0)
            tot["ended"] = tot.get("ended", 0) + st.get("threads_ended_by_themselves", 0)
            tot["killed"] = tot.get("killed", 0) + st.get("threads_destroyed_mid_statement", 0)
            for k, v in st.get("classes", {}).items():
                tot["classes"][k] = tot["classes"].get(k, 0) + v
            real = [p for p in probs if p[0] != "skipped"]
            if real:
                bad.append((c, real))
            elif not probs:
                seen.add(hashlib.sha256(("\n".join(c.ops) + c.header).encode()).hexdigest())
        if len(bad) > 40:
            break
    res.cov["evaluations"] += tot["stmts"]
    res.cov["distinct_nontrivial"] += tot["warned"]
    res.cov["programs_run"] = len(cases)
    res.cov["statements_compared_exactly"] = tot["exact"]
    res.cov["statements_unpredicted_safety_only"] = tot["unpredicted"]
    res.cov["statements_that_raised_a_warning"] = tot["warned"]
    res.cov["warning_classes_observed"] = tot["classes"]
    res.cov["raw_statements_not_compilable_replaced"] = tot["nc"]
    res.cov["threads_ended_by_themselves_stack_checked"] = tot.get("ended", 0)
    res.cov["threads_destroyed_mid_statement"] = tot.get("killed", 0)
    res.cov["samples"] += [dict(c.to_json(), ops=c.ops[:12]) for c in cases[:1] + cases[len(cases) // 2:len(cases) // 2 + 1] + cases[-1:]]
    # 4. report: one (minimised) record per signature
    known = vlib.known_findings(CID) + vlib.known_findings("C15")
    reported = set()
    for c, probs in bad:
        kind, why = probs[0]
        sig = signature(kind, why)
        if sig in reported:
            continue
        reported.add(sig)

        def fails(ops, kind=kind, sig=sig, c=c):
            cc = Case("s", c.header, ops, c.origin)
            pr, _, _ = run_cases(exe, drv, [cc])["s"]
            return any(signature(k2, w2) == sig for k2, w2 in pr)
        ops = c.ops
        try:
            ops = vlib.ddmin(c.ops, fails, max_runs=12 if kind == "timeout" else 120)
        except Exception:
            ops = c.ops
        cc = Case("r", c.header, ops, "shrunk from " + c.origin)
        pr, _, _ = run_cases(exe, drv, [cc])["r"]
        hit = [p for p in pr if signature(p[0], p[1]) == sig] or probs
        rec = {"property": CID, "kind": hit[0][0], "why": hit[0][1], "signature": sig, "header": c.header, "ops": ops, "origin": c.origin,
               "seed": seed, "script": script_of(exe, cc), "all_problems": [list(p) for p in pr][:6],
               "replay_cmd": "./check C04 --replay <this file>"}
        km = next((f for f in known if f.get("signature") == sig), None)
        if km:
            res.known_finding(km.get("what", sig))
            continue
        concrete = hit[0][0] not in ("model-vs-spec", "bad-input")
        if not concrete:
            rec["broken"] = "translator / theorem: see why"
        res.violation(rec, no_input=not concrete)
    if not pst["ok"] and not any(not ni for _, ni in res.violations):
        res.violation({"property": CID, "kind": "proof-broken",
                       "broken": "Coq build of C04/Properties.vo: theorem C04_model_table_matches_binary (check_tables Generated.tables = true: the model's value tables no longer "
                                 "describe the binary) or another obligation no longer checks, and no failing program was found by the differential run",
                       "hygiene": pst.get("hygiene"),
                       "log": pst.get("build_log", "")[-3000:] + str(pst.get("props", {}).get("log", ""))[-3000:]}, no_input=True)


def replay(path):
    rec = json.load(open(path))
    if "ops" not in rec:
        print("replay file names a broken obligation, not an input: %s" % rec.get("broken"))
        return 1
    vlib.coq_make(["C04/Extract.vo"])
    exe = harness()
    drv = vlib.ocaml_driver("C04")
    c = Case("r", rec["header"], rec["ops"], rec.get("origin", "replay").replace("shrunk from ", ""))
    probs, st, ci = run_cases(exe, drv, [c])["r"]
    print(script_of(exe, c))
    if not probs:
        print("REPLAY PASSES (no violation on the current tree; %d statements)" % st.get("stmts", 0))
        return 0
    for k, w in probs:
        print("REPLAY FAILS: %s: %s" % (k, w))
    return 1
