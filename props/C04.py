"""C04 - script errors are contained: no memory corruption, the host keeps control.

Not a history unit: the subject is programs.
 1. harness/C04.cpp (static library of /repo's current tree, ASan+UBSan) `optable` applies every
    operator / cast / index of ScriptVariable to every pair of representative values and prints
    result kind or exception class; the dump is translated into coq/C04/Generated.v on every
    run; Properties.v proves `check_tables Generated.tables = true` (the model's tables ARE the
    binary's, kernel-checked) and that no entry is anything but a value or a typed error;
 2. general theorems about the model (stack machine with the emitter's instruction order and the
    per-opcode error paths) : it refines the big-step specification, a statement always leaves
    the operand stack empty, an error never stops the thread, statements do not interfere;
 3. an UNTYPED program generator puts every representative value (and nested expressions) into
    every operator, index, field, command-receiver, argument and label position; every program is
    run on the real engine (markers around each statement, a second thread, a sentinel script
    afterwards, hook H4 probes) and on the extracted model + specification; per statement the
    warning classes, printed lines, completion and frame must agree; a sanitizer report, a
    signal, a hang, an exception leaving the host's call, a stack index != 0 at a thread's end,
    a damaged second thread or a failing sentinel is a violation (minimised with ddmin);
 4. raw sweeps (commands outside the model: removal of objects other threads wait on,
    self-removal, target groups, the command handlers of ScriptThread with every kind of
    argument) are checked for the safety observations only."""
import glob
import hashlib
import itertools
import json
import os
import random
import re

import vlib

LEVEL = "proof"
CID = "C04"

REPS = ["nil", "null", "i0", "i1", "i2", "i3", "im1", "i64", "ibig", "imin", "f0", "f1", "f1h", "fm2h",
        "se", "sa", "sabc", "s12", "svec", "st1", "sg", "sno", "ssub", "da", "dabc", "ch", "v0", "v123",
        "lth", "lent", "ldead", "lpl", "lgame", "llevel", "lparm", "lgroup", "lself",
        "arr", "earr", "ca123", "cal", "grp", "ptr"]
KIND = {"none": "KNone", "int": "KInt", "float": "KFloat", "char": "KChar", "cstr": "KCStr", "str": "KStr",
        "listener": "KListener", "array": "KArray", "carr": "KCArr", "cont": "KCont", "ptr": "KPtr", "vec": "KVec"}
WCLASS = {"Incompat": "WIncompat", "DivZero": "WDivZero", "Cast": "WCast", "Index": "WIndex", "InvType": "WInvType",
          "NullField": "WNullField", "NilCmd": "WNilCmd", "NullCmd": "WNullCmd", "Label": "WLabel", "NoTarget": "WNoTarget",
          "MultiTarget": "WMultiTarget", "BadHash": "WBadHash", "BadLabel": "WBadLabel", "File": "WFile", "Script": "WScript"}
BINOPS = ["add", "sub", "mul", "div", "mod", "and", "or", "xor", "shl", "shr", "eq", "ne", "lt", "gt", "le", "ge"]
BINCOQ = {"add": "BAdd", "sub": "BSub", "mul": "BMul", "div": "BDiv", "mod": "BMod", "and": "BAnd", "or": "BOr", "xor": "BXor",
          "shl": "BShl", "shr": "BShr", "eq": "BEq", "ne": "BNe", "lt": "BLt", "gt": "BGt", "le": "BLe", "ge": "BGe"}
UTAGS = ["neg", "compl", "inc", "dec", "not", "size", "c_int", "c_float", "c_string", "c_bool", "c_veclen", "c_char"]
UTAGCOQ = {"neg": "TNeg", "compl": "TCompl", "inc": "TInc", "dec": "TDec", "not": "TNot", "size": "TSize", "c_int": "TCInt",
           "c_float": "TCFloat", "c_string": "TCString", "c_bool": "TCBool", "c_veclen": "TCVecLen", "c_char": "TCChar"}
UNOPS = ["neg", "compl", "not", "size", "tgt"]
CASTS = ["int", "float", "string", "bool", "abs", "veclen", "typeof", "isdefined", "isarray"]
LCLASS = {"Thread": "LThread", "Entity": "LEntity", "Plain": "LPlain", "Game": "LGame", "Level": "LLevel", "Parm": "LParm", "Group": "LGroup"}


class BrokenTie(Exception):
    pass


def harness():
    return vlib.build_harness("C04", ["harness/C04.cpp"], "asan", use_lib=True)


# ------------------------------------------------------------------------------- the dump

def dres(words):
    """V kind rep | E class kind rep | X ... | S"""
    if words[0] == "V":
        return ("V", words[1], words[2])
    if words[0] == "E":
        return ("E", words[1], words[2], words[3])
    if words[0] == "S":
        return ("S",)
    return ("X", " ".join(words[1:]))


def parse_dump(out):
    d = {"kinds": {}, "bin": {}, "un": {}, "idx": {}, "attr": {}}
    ended = False
    for ln in out.splitlines():
        w = ln.split()
        if not w:
            continue
        if w[0] == "rep":
            if w[2] != w[3]:
                raise BrokenTie("representative %s was built as kind %s, declared %s" % (w[1], w[3], w[2]))
            d["kinds"][w[1]] = w[2]
        elif w[0] == "bin":
            d["bin"][(w[1], w[2], w[3])] = dres(w[4:])
        elif w[0] == "un":
            d["un"][(w[1], w[2])] = dres(w[3:])
        elif w[0] == "idx":
            d["idx"][(w[1], w[2])] = dres(w[3:])
        elif w[0] == "attr":
            d["attr"][(w[1], w[2])] = w[3:]
        elif w[0] == "endtable":
            ended = True
        elif w[0] == "X":
            raise BrokenTie("table dump: " + ln)
        else:
            raise BrokenTie("unexpected line in the table dump: " + ln[:200])
    if not ended:
        raise BrokenTie("table dump incomplete")
    if list(d["kinds"]) != REPS:
        raise BrokenTie("the harness's representative list differs from props/C04.py")
    for o in BINOPS:
        for a in REPS:
            for b in REPS:
                if (o, a, b) not in d["bin"]:
                    raise BrokenTie("missing table entry bin %s %s %s" % (o, a, b))
    for t in UTAGS:
        for a in REPS:
            if (t, a) not in d["un"]:
                raise BrokenTie("missing table entry un %s %s" % (t, a))
    for a in REPS:
        for b in REPS:
            if (a, b) not in d["idx"]:
                raise BrokenTie("missing table entry idx %s %s" % (a, b))
        for t in ("size", "arraysize", "long", "int", "lsn"):
            if (t, a) not in d["attr"]:
                raise BrokenTie("missing attribute %s %s" % (t, a))
    return d


def coq_rep(r):
    return "None" if r == "?" else "(Some R%s)" % r


def coq_dres(x):
    if x[0] == "V":
        if x[1] not in KIND:
            raise BrokenTie("result of an unexpected kind: %s" % (x,))
        return "DV %s %s" % (KIND[x[1]], coq_rep(x[2]))
    if x[0] == "E":
        if x[1] not in WCLASS or x[2] not in KIND:
            return "DX"
        return "DE %s %s %s" % (WCLASS[x[1]], KIND[x[2]], coq_rep(x[3]))
    if x[0] == "S":
        return "DS"
    return "DX"


def coq_cast(w):
    if w[0] == "E":
        return "CErr"
    if w[0] == "U":
        return "CUnk"
    return "(CVal (%s))" % w[1]


def coq_lsn(w):
    if w[0] == "E":
        return "(DLE %s)" % WCLASS[w[1]]
    if w[0] == "N":
        return "DLN"
    return "(DLL %s)" % LCLASS[w[1]]


def generated_v(d):
    o = ["(* C04/Generated.v - GENERATED on every run by props/C04.py from the table dump of the harness",
         "   built from /repo's current tree (harness/C04.cpp optable).  Do not edit. *)",
         "From Coq Require Import ZArith List.",
         "From Morfuse Require Import C04.Model C04.Table.",
         "Import ListNotations.",
         "Local Open Scope Z_scope.", ""]
    o.append("Definition g_kinds : list kind := [%s]." % "; ".join(KIND[d["kinds"][r]] for r in REPS))
    o.append("Definition g_bin : list bin_row := [")
    rows = []
    for op in BINOPS:
        for a in REPS:
            rows.append("  (%s, R%s, [%s])" % (BINCOQ[op], a, "; ".join(coq_dres(d["bin"][(op, a, b)]) for b in REPS)))
    o.append(";\n".join(rows))
    o.append("].")
    o.append("Definition g_un : list un_row := [")
    o.append(";\n".join("  (%s, [%s])" % (UTAGCOQ[t], "; ".join(coq_dres(d["un"][(t, a)]) for a in REPS)) for t in UTAGS))
    o.append("].")
    o.append("Definition g_idx : list idx_row := [")
    o.append(";\n".join("  (R%s, [%s])" % (a, "; ".join(coq_dres(d["idx"][(a, b)]) for b in REPS)) for a in REPS))
    o.append("].")
    o.append("Definition g_size : list Z := [%s]." % "; ".join("(%s)" % d["attr"][("size", a)][0] for a in REPS))
    o.append("Definition g_arraysize : list Z := [%s]." % "; ".join("(%s)" % d["attr"][("arraysize", a)][0] for a in REPS))
    o.append("Definition g_long : list castres := [%s]." % "; ".join(coq_cast(d["attr"][("long", a)]) for a in REPS))
    o.append("Definition g_int : list castres := [%s]." % "; ".join(coq_cast(d["attr"][("int", a)]) for a in REPS))
    o.append("Definition g_lsn : list dlsn := [%s]." % "; ".join(coq_lsn(d["attr"][("lsn", a)]) for a in REPS))
    o.append("")
    o.append("Definition tables : tables := mkTables g_kinds g_bin g_un g_idx g_size g_arraysize g_long g_int g_lsn.")
    return "\n".join(o) + "\n"


def write_if_changed(path, text):
    old = open(path).read() if os.path.exists(path) else None
    if old != text:
        with open(path, "w") as f:
            f.write(text)
        return True
    return False


def dump_tables(exe):
    """-> (dump dict, crash record or None)"""
    rc, out, err = vlib.sh([exe, "optable", "vecdiv", "shift"], env=vlib.ASAN_ENV, timeout=300)
    if rc != 0 or "endtable" not in out:
        last = [l for l in out.splitlines() if l.split()[:1] and l.split()[0] in ("bin", "un", "idx", "attr")]
        return None, {"property": CID, "kind": "crash", "signature": "C04:table-crash",
                      "why": "the table dump (every operator applied to every pair of representative values through the ScriptVariable interface) ended with rc=%s after entry `%s`:\n%s" % (
                          rc, last[-1] if last else "-", vlib._err_head(err)),
                      "table_entry_before_the_failing_one": last[-1] if last else None}
    return parse_dump(out), None
