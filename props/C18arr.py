"""C18 (unit C18arr) — con::arrayset, the indexed set behind StringDictionary, behaves like a list of keys."""
import glob
import itertools
import os
import random

import vlib
from vlib import Case

LEVEL = "proof"
PRIMES = [7, 17, 37, 79, 163, 331]


class C18arr(vlib.HistoryProp):
    cid = "C18"
    unit = "C18arr"
    variant = "asan"
    harness_sources = ["harness/C18arr.cpp"]
    use_lib = True
    coq_dirs = ["Base", "C18arr"]
    has_monitor = False     # deterministic specification, printed by the driver next to the model
    batch = 4000

    def assumptions(self):
        return ["C18arr: operator[](i) is only called with 1 <= i <= size() (another index dereferences a null/stale pointer); model and specification "
                "both answer 'undef' exactly then (proved), the harness does not execute such a call",
                "C18arr: resize(n) is only called with 1 <= n, size() <= n <= 89834777 (StringDictionary::AllocateMoreString only grows; a smaller n makes "
                "addNewKeyEntry write behind the reverse table); interning more than 89834777 distinct keys is outside the contract (set_primes ends there, rehash() would resize(0))",
                "C18arr: remove() is outside the proved alphabet (refuted: C18arr_remove_refuted and the witnesses in Properties.v); the 'remove-finding' cases run by default and are matched against known_findings.json",
                "C18arr: the hash is k mod hmod on int keys (a custom HashT) in driver and harness; the theorem holds for every hash function",
                "C18arr: FreeTable/Free are not modelled (memory safety of the real code is checked by AddressSanitizer in the harness); addKeyIndex(key, wasAdded) and findKeyValue() "
                "cannot be instantiated (they access private members of EntryArraySet) and are therefore not driven"]

    # ---- generation -----------------------------------------------------------------
    MUT = ["add 0", "add 1", "add 2", "add 3", "resize 1", "resize 2", "resize 5", "shrink", "clear"]
    QRY = ["find 0", "find 3", "at 1", "at 2", "at 3", "size", "resize 0"]
    RMV = ["add 0", "add 1", "add 2", "add 3", "rm 0", "rm 1", "rm 3", "shrink", "clear"]

    @staticmethod
    def well_formed(ops, allow_last_undef=False):
        """no op after a precondition violation (the case would end there); returns False for
        histories that contain a violated precondition before their last op"""
        keys = set()
        for n, o in enumerate(ops):
            w = o.split()
            bad = False
            if w[0] == "add":
                keys.add(w[1])
            elif w[0] == "clear":
                keys = set()
            elif w[0] == "resize":
                bad = int(w[1]) < max(1, len(keys))
            elif w[0] == "at":
                bad = not (1 <= int(w[1]) <= len(keys))
            if bad and not (allow_last_undef and n == len(ops) - 1):
                return False
        return True

    def enum(self, alphabet, length, header_of, origin, out, allow_undef=False):
        for tup in itertools.product(alphabet, repeat=length):
            if not self.well_formed(tup, allow_undef):
                continue
            out.append(Case("e%d" % len(out), header_of(len(out)), list(tup), origin))

    def walk(self, rng, nkeys, hmod, length, cid, variant, p_clear, with_rm=False):
        ops = []
        keys = []          # distinct keys in insertion order (python shadow, only to keep preconditions)
        u = min(nkeys, 8)
        hot = [rng.randrange(nkeys) for _ in range(max(2, nkeys // 3))]
        for _ in range(length):
            r = rng.random()
            k = rng.choice(hot) if rng.random() < 0.3 else rng.randrange(nkeys)
            if with_rm and r < 0.15:
                ops.append("rm %d" % k)
                if k in keys:
                    keys.remove(k)
            elif r < 0.50:
                ops.append("add %d" % k)
                if k not in keys:
                    keys.append(k)
            elif r < 0.64:
                ops.append("find %d" % k)
            elif r < 0.74 and keys and not with_rm:
                ops.append("at %d" % rng.choice([1, len(keys), rng.randrange(1, len(keys) + 1)]))
            elif r < 0.79:
                ops.append("size")
            elif r < 0.89:
                n = len(keys)
                cand = [max(1, n), n + 1, n + rng.randrange(0, 12), rng.choice(PRIMES), rng.choice(PRIMES) - 1, 1]
                n2 = rng.choice([c for c in cand if c >= max(1, n)])
                ops.append("resize %d" % n2)
            elif r < 0.89 + 0.08:
                ops.append("shrink")
                if with_rm and not keys:
                    keys = []
            elif r < 0.97 + p_clear:
                ops.append("clear")
                keys = []
            else:
                ops.append("add %d" % k)
                if k not in keys:
                    keys.append(k)
        origin = ("remove-finding" if with_rm else "random-walk") + "-%dkeys-hmod%d-len%d" % (nkeys, hmod, length)
        return Case(cid, "%d %d %d" % (hmod, u, variant), ops, origin)

    def remove_cases(self, rng, tier):
        out = []
        for i, (h, ops) in enumerate([
                ("2 4 0", ["add 0", "rm 0", "size", "find 0"]),
                ("2 4 0", ["add 0", "add 1", "rm 0", "add 2", "find 1", "find 2", "at 2"]),
                ("2 4 0", ["add 0", "add 1", "rm 0", "add 3", "find 1"]),
                ("2 4 1", ["add 0", "add 1", "rm 0", "add 3", "find 1"]),
                ("2 4 2", ["add 0", "add 1", "rm 0", "add 3", "find 1"]),
                ("2 4 0", ["add 0", "shrink", "clear", "rm 5"])]):
            out.append(Case("rw%d" % i, h, ops, "remove-finding"))
        ex = []
        self.enum(self.RMV, 4 if tier == "quick" else 5, lambda n: "2 4 %d" % (n % 2), "remove-finding", ex)
        for c in ex:
            c.id = "r" + c.id
        out += [c for c in ex if any(o.startswith("rm") for o in c.ops)]
        for j in range(200 if tier == "quick" else 3000):
            out.append(self.walk(rng, rng.choice([4, 6, 20]), rng.choice([1, 2, 3, 5]), rng.choice([12, 40, 150]),
                                 "rx%d" % j, j % 3, 0.0, with_rm=True))
        return out

    def gen(self, tier, seed):
        rng = random.Random(seed)
        cases = []
        for p in sorted(glob.glob(os.path.join(vlib.VERIF, "corpus", "C18arr", "*.txt"))):
            lines = [l.strip() for l in open(p) if l.strip() and not l.startswith("#")]
            cases.append(Case("c_" + os.path.basename(p)[:-4], lines[0], lines[1:], "corpus"))
        ex = []
        if tier == "quick":
            self.enum(self.MUT, 4, lambda n: "3 4 %d" % (n % 2), "exhaustive-mutators-len4-hmod3", ex)
            self.enum(self.MUT, 3, lambda n: "1 4 %d" % (n % 3), "exhaustive-mutators-len3-hmod1", ex)
            self.enum(self.MUT + self.QRY, 2, lambda n: "3 4 0", "exhaustive-all-ops-len2", ex, allow_undef=True)
            walks = [(6, 60, 150), (20, 60, 150), (60, 200, 60), (200, 600, 12), (400, 3000, 2)]
        else:
            self.enum(self.MUT, 6, lambda n: "3 4 %d" % (n % 2), "exhaustive-mutators-len6-hmod3", ex)
            self.enum(self.MUT, 5, lambda n: "1 4 %d" % (n % 3), "exhaustive-mutators-len5-hmod1", ex)
            self.enum(self.MUT, 5, lambda n: "2 4 %d" % (n % 3), "exhaustive-mutators-len5-hmod2", ex)
            self.enum(self.MUT + self.QRY, 4, lambda n: "3 4 0", "exhaustive-all-ops-len4", ex, allow_undef=True)
            walks = [(6, 100, 3000), (20, 100, 3000), (60, 300, 1500), (200, 1000, 300), (1000, 10000, 10)]
        cases += ex
        k = 0
        for nkeys, ln, cnt in walks:
            for _ in range(cnt):
                hmod = rng.choice([1, 2, 3, 5, 7, 16, 1000])
                p_clear = 0.03 if ln <= 300 else 0.002
                cases.append(self.walk(rng, nkeys, hmod, ln, "w%d" % k, rng.choice([0, 0, 1, 2]), p_clear))
                k += 1
        if not os.environ.get("VERIF_C18ARR_NO_REMOVE"):
            # arrayset::remove is refuted (known findings W0-W3, DESIGN.md 6): these cases are
            # expected to fail with the signatures listed in known_findings.json
            cases += self.remove_cases(rng, tier)
        return cases

    # ---- canonicalisation ------------------------------------------------------------
    def canon_model(self, lines):
        m = [l[2:] for l in lines if l.startswith("m ")]
        s = [l[2:] for l in lines if l.startswith("s ")]
        d = [l[2:] for l in lines if l.startswith("d ")]
        return m, d, m == s

    def canon_impl(self, lines):
        m, direct = [], []
        for l in lines:
            if not l.startswith("m "):
                continue
            t = l[2:]
            if "!" in t:
                i = t.index("!")
                direct.append("observation %d: %s" % (len(m), t[i:].strip()))
                t = t[:i].rstrip()
                if not t:
                    continue
            m.append(t)
        d = [l[2:] for l in lines if l.startswith("d ")]
        return m, d, direct, None

    def signature(self, case, rec, verdict):
        if any(o.startswith("rm") for o in case.ops):
            return "C18arr-remove:" + verdict["kind"]
        return "C18arr:" + verdict["kind"]

    def nontrivial(self, case, compared):
        # the table grew past the inline slot at least once, and a key that was present was looked up again
        sizes = [int(c.split("|")[1].split()[0]) for c in compared if "|" in c]
        return len(case.ops) >= 3 and max(sizes or [0]) >= 2


HP = C18arr()


def check(res, tier, seed):
    res.cov["rule"] += ("[C18arr] corpus first; every history of mutators {add 0..3, resize 1/2/5, shrink, clear} of length 4 (quick) / 6 (thorough) with "
                        "hash = k mod 3 (keys 0 and 3 collide) and length 3 / 5 with all keys colliding, the state (size, id of every key, key of every id) "
                        "observed after every op; every history of length 2 / 4 over mutators + find/at/size + precondition-violating at/resize; seeded random walks "
                        "over 6..1000 keys with hash = k mod {1,2,3,5,7,16,1000} through the growth steps 1->7->17->37->79->..., three instantiations "
                        "(int/int with DefaultAlloc_set, K/V structs with counted value objects, int/int with the default block allocator); "
                        "non-trivial = at least 3 ops and the set held >= 2 keys (it left the inline defaultEntry slot). remove() cases (origin remove-finding) are expected to hit the known findings. ")
    vlib.history_check(res, HP, tier, seed)


def replay(path):
    return vlib.history_replay(HP, path)
