"""C18 (unit C18set) — con::set / con::map behave like a finite map key -> value."""
import glob
import itertools
import os
import random

import vlib
from vlib import Case

LEVEL = "proof"

# h(k) = (k mod 4) * 119 + k / 4 : the four keys 4q..4q+3 collide modulo 7, 17 and 119
U4 = [0, 1, 4, 5]                       # two colliding pairs (buckets 0 and 1 of 7 and of 17)
BIG = [1000003, 999983, 2147483647, 65536, 476, 477, 478, 479, 28, 29, 68, 69]


class C18set(vlib.HistoryProp):
    cid = "C18"
    unit = "C18set"
    variant = "asan"
    harness_sources = ["harness/C18set.cpp"]
    use_lib = True
    coq_dirs = ["Base", "C18set"]
    has_monitor = False      # deterministic specification printed by the driver next to the model
    batch = 4000

    def assumptions(self):
        return ["keys are non-negative ints wrapped in a type that counts constructions/destructions, values are ints; KeyEqT is equality; the hash function of the harness and of the driver is h(k) = (k mod 4) * 119 + k / 4 (the theorem holds for every hash function)",
                "a removed defaultEntry leaves a dangling pointer that the C++ only compares; the allocator may reuse the address for a later entry while the model's entry ids are fresh, so defaultEntry == entry may evaluate differently; the guarded branch only stores another non-null pointer into defaultEntry and nothing else depends on it (C18set/Model.v header)",
                "tableLengthIndex, the allocators and Archive are not modelled; the value of an entry created by addKeyValue(key) is assigned at once by the client operation",
                "resize(n) is driven with n < 2^16 (a table of n pointers is really allocated); the last prime of set_primes (89834777) and the trailing 0 element are modelled but not reached by the harness"]

    # ---- generation -----------------------------------------------------------------
    def exhaustive(self, letters, maxlen, tag, out):
        """every sequence over `letters` up to maxlen in which an operation that cannot change the
        table (remove of an absent key, clear of a pristine table) only occurs as the LAST one
        (such an operation elsewhere leaves the same table as the sequence without it, which is
        enumerated too); every sequence is followed by a lookup of each of the four keys"""
        suffix = ["F %d" % k for k in U4]
        n0 = len(out)

        def rec(ops, present, pristine):
            for li, l in enumerate(letters):
                w = l.split()
                o2 = ops + [l.replace("$", str(10 * (len(ops) + 1) + li % 4))]
                out.append(Case("%s%d" % (tag, len(out) - n0), "1", o2 + suffix, "exhaustive-%s-len<=%d" % (tag, maxlen)))
                if len(o2) >= maxlen:
                    continue
                k = int(w[1]) if len(w) > 1 and w[0] in "AIR" else None
                if w[0] == "R":
                    if k in present:
                        rec(o2, present - {k}, False)
                elif w[0] in "AI":
                    rec(o2, present | {k}, False)
                elif w[0] == "C":
                    if not (pristine and not present):
                        rec(o2, frozenset(), True)
                elif w[0] == "H":
                    rec(o2, present, not present)
                else:
                    rec(o2, present, False)
        rec([], frozenset(), True)

    def to_map(self, ops):
        """the same history through con::map where it has the operation"""
        tr = {"A": "MI", "F": "MF", "R": "MR", "S": "MS", "C": "MC", "Z": "MZ", "E": "ME"}
        res = []
        for o in ops:
            w = o.split()
            if w[0] in tr:
                res.append(" ".join([tr[w[0]]] + w[1:]))
        return res

    def walk(self, rng, keys, length, cid, full, mix_map, origin):
        ops = []
        present = set()
        mode = "grow"
        for i in range(length):
            if i % max(8, length // 10) == 0:
                mode = rng.choice(["grow", "grow", "mixed", "drain", "mixed"])
            r = rng.random()
            k = rng.choice(keys)
            if rng.random() < 0.3 and present:
                k = rng.choice(sorted(present)) if len(present) < 64 else k
            pa = {"grow": 0.62, "mixed": 0.36, "drain": 0.12}[mode]
            pr = {"grow": 0.08, "mixed": 0.26, "drain": 0.55}[mode]
            pre = "M" if (mix_map and rng.random() < 0.4) else ""
            if r < pa:
                if pre:
                    ops.append("MI %d %d" % (k, i + 1))
                elif rng.random() < 0.7:
                    ops.append("A %d %d" % (k, i + 1))
                    present.add(k)
                else:
                    ops.append("I %d %d" % (k, i + 1))
                    present.add(k)
            elif r < pa + pr:
                ops.append("%sR %d" % (pre, k))
                if not pre:
                    present.discard(k)
            elif r < pa + pr + 0.14:
                ops.append("%sF %d" % (pre, k))
            elif r < pa + pr + 0.17:
                ops.append("%sS" % pre)
            elif r < pa + pr + 0.20:
                if pre:
                    ops.append("MZ %d" % rng.choice([0, 1, 2, 3, 5, 7, 8, 17, 34] + ([] if full else [119, 1000])))
                else:
                    ops.append("H")
            elif r < pa + pr + 0.23:
                # large tables only when the enumeration is on demand (every enumeration walks all buckets)
                ops.append("%sZ %d" % (pre, rng.choice([0, 1, 2, 3, 4, 6, 7, 16, 17, 18, 36] + ([] if full else [119, 238, 1000, 5000]))))
            elif r < pa + pr + 0.245:
                ops.append("%sC" % pre)
                if not pre:
                    present.clear()
            elif full or rng.random() < 0.05:
                ops.append("%sE" % pre)
            else:
                ops.append("%sF %d" % (pre, k))     # on-demand mode: enumerations are rare (they cost n^2)
        ops += ["H", "E"] + (["ME"] if mix_map else [])
        return Case(cid, "1" if full else "0", ops, origin)

    def shrink_walk(self, rng, nkeys, cid):
        """the shape of the repaired defect: many adds, remove most, shrink, find the rest"""
        keys = rng.sample(range(0, 4 * nkeys), nkeys)
        ops = ["A %d %d" % (k, i + 1) for i, k in enumerate(keys)]
        gone = rng.sample(keys, rng.randrange(nkeys // 2, nkeys))
        ops += ["R %d" % k for k in gone]
        ops += ["H", "E"]
        ops += ["F %d" % k for k in keys]
        ops += ["A %d %d" % (k, 7) for k in gone[:3]] + ["E"]
        return Case(cid, "1" if nkeys <= 60 else "0", ops, "shrink-after-removes-%d" % nkeys)

    def grow_walk(self, rng, nkeys, cid):
        """growth through many primes: nkeys distinct insertions with lookups and a few removals in
        between, enumerate, remove most, shrink, enumerate, look everything up (enumeration on demand)"""
        keys = rng.sample(range(0, 3 * nkeys), nkeys)
        ops, live = [], []
        for i, k in enumerate(keys):
            ops.append(("A %d %d" if rng.random() < 0.6 else "I %d %d") % (k, i + 1))
            live.append(k)
            r = rng.random()
            if r < 0.25:
                ops.append("F %d" % rng.choice(keys[:i + 1]))
            elif r < 0.30:
                j = rng.randrange(len(live))
                ops.append("R %d" % live[j])
                live[j] = live[-1]
                live.pop()
            elif r < 0.31:
                ops.append("S")
        ops.append("E")
        gone = rng.sample(live, (len(live) * 4) // 5)
        ops += ["R %d" % k for k in gone]
        ops += ["H", "E"]
        ops += ["F %d" % k for k in rng.sample(keys, min(len(keys), 400))]
        ops += ["A %d 5" % k for k in gone[:40]] + ["E", "C", "S"]
        return Case(cid, "0", ops, "growth-%dkeys-enum-on-demand" % nkeys)

    def gen(self, tier, seed):
        rng = random.Random(seed)
        cases = []
        for p in sorted(glob.glob(os.path.join(vlib.VERIF, "corpus", "C18set", "*.txt"))):
            lines = [l.strip() for l in open(p) if l.strip() and not l.startswith("#")]
            cases.append(Case("c_" + os.path.basename(p)[:-4], lines[0], lines[1:], "corpus"))
        mut = ["A %d $" % k for k in U4] + ["R %d" % k for k in U4] + ["C", "H", "Z 3"]
        mut2 = mut + ["I %d $" % k for k in U4] + ["Z 2"]
        ex = []
        if tier == "quick":
            self.exhaustive(mut, 4, "x", ex)
            self.exhaustive(mut2, 3, "y", ex)
            walks = [(list(range(8)), 60, 150, True, True), (list(range(24)) + BIG, 150, 120, True, True),
                     (list(range(40)) + BIG, 400, 25, True, False), (list(range(200)), 700, 4, True, False),
                     (list(range(1500)), 4000, 1, False, True)]
            shr = [(20, 40), (60, 10), (200, 2)]
            grow = [(400, 2), (1500, 1)]
        else:
            self.exhaustive(mut, 6, "x", ex)
            self.exhaustive(mut2, 5, "y", ex)
            walks = [(list(range(8)), 60, 12000, True, True), (list(range(24)) + BIG, 150, 4000, True, True),
                     (list(range(40)) + BIG, 400, 800, True, False), (list(range(200)), 1000, 30, True, False),
                     (list(range(1500)) + BIG, 10000, 5, False, True), (list(range(6000)), 10000, 3, False, False)]
            shr = [(20, 2000), (60, 300), (200, 40), (700, 6)]
            grow = [(400, 40), (1500, 10), (3000, 2), (6000, 1)]
        cases += ex
        # the exhaustive set histories again through con::map (quick: all, thorough: up to length 5)
        kmap = 0
        for c in ex:
            if tier == "quick" or len(c.ops) <= 5 + 4:
                mo = self.to_map(c.ops)
                if len(mo) == len(c.ops):
                    cases.append(Case("m%d" % kmap, "1", mo, c.origin + "-via-map"))
                    kmap += 1
        k = 0
        for keys, ln, cnt, full, mix in walks:
            for _ in range(cnt):
                cases.append(self.walk(rng, keys, ln, "w%d" % k, full, mix,
                                       "random-walk-%dkeys-len%d%s" % (len(keys), ln, "" if full else "-enum-on-demand")))
                k += 1
        for nk, cnt in shr:
            for _ in range(cnt):
                cases.append(self.shrink_walk(rng, nk, "h%d" % k))
                k += 1
        for nk, cnt in grow:
            for _ in range(cnt):
                cases.append(self.grow_walk(rng, nk, "g%d" % k))
                k += 1
        return cases

    # ---- canonicalisation ------------------------------------------------------------
    def canon_model(self, lines):
        m = [l[2:] for l in lines if l.startswith("m ")]
        s = [l[2:] for l in lines if l.startswith("s ")]
        # the specification is compared with the observation part of the model's line
        return m, [], [l.split(" | ")[0] for l in m] == s

    def canon_impl(self, lines):
        m = [l[2:] for l in lines if l.startswith("m ")]
        direct = []
        for i, l in enumerate(m):
            if "!" in l:
                direct.append("observation %d: %s (isEmpty()/allocated()/const lookup inconsistent, or live key objects != size of set + map)" % (i, l))
        return m, [], direct, None

    def nontrivial(self, case, compared):
        txt = " ".join(compared)
        # a successful removal, a chain of >= 2 entries and a grown table were all seen
        return ("r=true" in txt and any("," in c.split(" b=")[-1] for c in compared if " b=" in c)
                and (" a=7 " in txt or " a=17 " in txt or " a=37 " in txt))


HP = C18set()


def check(res, tier, seed):
    res.cov["rule"] += ("C18set: corpus first (the shrink regression); every history of mutators (add x 4 keys, remove x 4, clear, shrink, resize 3) up to length 4 (quick) / 6 (thorough) "
                        "and with addKeyValue(k,v) and resize 2 up to length 3 / 5 over the 4-key universe {0,1,4,5} (two colliding pairs; an operation that cannot change the table - remove of an absent key, "
                        "clear of a pristine table - only as the last one), each followed by a lookup of every key, "
                        "the container enumerated after every operation; the same histories through con::map; seeded random walks over 8 / 36 / 52 / 200 / 1500 / 6000 keys "
                        "(lengths 60 .. 10^4, phases grow/mixed/drain, resize to small and - with enumeration on demand - large lengths, set and map interleaved); many adds - remove most - shrink - find all; "
                        "growth walks of 400 .. 6000 distinct insertions (tables up to 10949 buckets) - remove 4/5 - shrink - look up; "
                        "compared: return value, size(), sorted enumeration, and for the set allocated(), defaultEntry != nullptr and every chain in order; "
                        "non-trivial = a removal succeeded, a chain held >= 2 entries and the table had grown. ")
    vlib.history_check(res, HP, tier, seed)


def replay(path):
    return vlib.history_replay(HP, path)
