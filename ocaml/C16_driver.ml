(* C16 driver.  stdin (written by props/C16.py from the harness dump):
     decl <kind n|r|g|s|x> <ns> <char codes, comma separated>        in declaration order
     class <parent position | -1> <ev:has,ev:has,... | ->             parents first
     q <id> <class position> <kind> <mode N|I|X> <ns list | -> <via S|E|R> <char codes>
   stdout: everything the extracted MODEL computes for that registry, next to the SPEC:
     count <model> <spec>
     num <i> <model number of declaration i> <spec number>
     evl <pos> <num> <kind> <ns> <codes>            the model's EventDef list, head first
     name <idx> <normal> <return> <setter> <getter> <codes>     the model's name table
     nameprobe <idx> null                           find_event_info = None for a valid index
     mslot <class> <ev> <declaring class> <index>   non-empty entries of the model's tables
     sslot <class> <ev> <declaring class> <index>   non-empty entries of the spec (nearest ancestor)
     a <id> <model outcome> | <spec outcome> *)
let kind_of = function
  | "n" -> KNormal | "r" -> KReturn | "g" -> KGetter | "s" -> KSetter | _ -> KNone
let kind_str = function
  | KNormal -> "n" | KReturn -> "r" | KGetter -> "g" | KSetter -> "s" | KNone -> "x"
let mode_of = function "I" -> FInclusive | "X" -> FExclusive | _ -> FNone
let ints s = if s = "-" || s = "" then [] else List.map int_of_string (String.split_on_char ',' s)
let codes s : name = List.map n_of_int (ints s)
let codes_str (n : name) = if n = [] then "-" else ilist (List.map int_of_n n)
let outcome_str = function
  | NotFound -> "NotFound" | Unsupported -> "Unsupported" | Silent -> "Silent" | Undefined -> "Undefined"
  | Handler (c, i) -> Printf.sprintf "H %d %d" (int_of_nat c) (int_of_nat i)

let () =
  let lines = read_lines stdin in
  let decls = ref [] and classes = ref [] and queries = ref [] in
  List.iter (fun l ->
      match words l with
      | ["decl"; k; ns; cs] ->
        decls := { d_name = codes cs; d_kind = kind_of k; d_ns = nat_of_int (int_of_string ns) } :: !decls
      | ["class"; p; rs] ->
        let p = int_of_string p in
        let resp = if rs = "-" then [] else
            List.map (fun w -> match String.split_on_char ':' w with
                | [e; h] -> (n_of_int (int_of_string e), h = "1")
                | _ -> failwith ("bad response " ^ w)) (String.split_on_char ',' rs) in
        classes := { c_parent = (if p < 0 then None else Some (nat_of_int p)); c_resp = resp } :: !classes
      | ["q"; id; c; k; m; f; via; cs] ->
        queries := (id, int_of_string c, k, m, f, via, cs) :: !queries
      | [] -> ()
      | _ -> failwith ("bad line " ^ l)) lines;
  let ds = List.rev !decls and cs = List.rev !classes and qs = List.rev !queries in
  (* model *)
  let (st, nums) = register ds in
  let g = prepare ds cs in
  (* spec *)
  let fs = firsts ds in
  let count = int_of_n g.g_count in
  Printf.printf "count %d %d\n" count (int_of_n (spec_count ds));
  List.iteri (fun i (d, mnum) ->
      let snum = match find_pos fs d.d_name d.d_kind (n_of_int 1) with Some (j, _) -> int_of_n j | None -> 0 in
      Printf.printf "num %d %d %d\n" i (int_of_n mnum) snum) (List.combine ds nums);
  List.iteri (fun i e ->
      Printf.printf "evl %d %d %s %d %s\n" i (int_of_n e.e_num) (kind_str e.e_kind) (int_of_nat e.e_ns) (codes_str e.e_name))
    st.r_list;
  List.iteri (fun i (nm, inf) ->
      Printf.printf "name %d %d %d %d %d %s\n" (i + 1) (int_of_n inf.i_normal) (int_of_n inf.i_return)
        (int_of_n inf.i_setter) (int_of_n inf.i_getter) (codes_str nm);
      (match find_event_info g.g_names (nat_of_int (i + 1)) with
       | None -> Printf.printf "nameprobe %d null\n" (i + 1)
       | Some _ -> ())) g.g_names;
  List.iteri (fun ci _ ->
      let t = nth (nat_of_int ci) g.g_tabs tempty in
      for ev = 1 to count do
        (match t (n_of_int ev) with
         | Some (c, i) -> Printf.printf "mslot %d %d %d %d\n" ci ev (int_of_nat c) (int_of_nat i)
         | None -> ());
        (match spec_slot cs (nat_of_int ci) (n_of_int ev) with
         | Some (c, i) -> Printf.printf "sslot %d %d %d %d\n" ci ev (int_of_nat c) (int_of_nat i)
         | None -> ())
      done) cs;
  (* queries: the extracted functions are pure; identical argument tuples are evaluated once *)
  let memo = Hashtbl.create 4096 in
  let numc = Hashtbl.create 256 in
  List.iter (fun (id, c, k, m, f, via, codes_s) ->
      let key = (c, k, m, f, (via = "R"), codes_s) in
      let ans =
        match Hashtbl.find_opt memo key with
        | Some a -> a
        | None ->
          let n = codes codes_s and kd = kind_of k and md = mode_of m in
          let fl = List.map nat_of_int (ints f) and ci = nat_of_int c in
          let a =
            if via = "R" then begin
              let num = match Hashtbl.find_opt numc (codes_s, k) with
                | Some x -> x
                | None -> let x = find_num g.g_names n kd in Hashtbl.add numc (codes_s, k) x; x in
              (outcome_str (dispatch_return md fl g ci num),
               outcome_str (spec_invoke_return_in md fl fs cs ci n kd))
            end else
              (outcome_str (invoke md fl g ci n kd),
               outcome_str (spec_invoke_in md fl fs cs ci n kd)) in
          Hashtbl.add memo key a; a in
      Printf.printf "a %s %s | %s\n" id (fst ans) (snd ans)) qs
