(* C11 driver.  stdin: "case <id> <magic-hex> <version> <name-hex|-> | item | item ...", damage ops, "end".
   op:  T <n>  (the first n bytes survive)  |  S <pos>:<hexbyte>[,<pos>:<hexbyte>...] [flag [classes]]
   mode "model":  per op "m <op> => <outcome of the model>", then per op "s <op> => <err|oksame|any>"
   mode "layout": "b <hex of the intact archive>", "l <class of every byte, writer side>",
                  "r <class of every byte, reader side>", "w <wf_case>", "g <check_after_read><version_test_is_or>"
   item syntax and helpers as in C10_driver.ml *)
let hexdig = "0123456789abcdef"
let n_of_hex (s : string) : n =
  let bits = ref [] in
  String.iter (fun ch ->
      let v = int_of_string ("0x" ^ String.make 1 ch) in
      bits := (v land 1 <> 0) :: (v land 2 <> 0) :: (v land 4 <> 0) :: (v land 8 <> 0) :: !bits) s;
  let rec drop = function false :: r -> drop r | l -> l in
  match drop (List.rev !bits) with
  | [] -> N0
  | _ :: r -> Npos (List.fold_left (fun acc b -> if b then XI acc else XO acc) XH r)
let hex_of_n (x : n) : string =
  match x with
  | N0 -> "0"
  | Npos p ->
    let rec bits p = match p with XH -> [1] | XO q -> 0 :: bits q | XI q -> 1 :: bits q in
    let rec nib l = match l with
      | [] -> []
      | a :: b :: c :: d :: r -> (a + 2 * b + 4 * c + 8 * d) :: nib r
      | l -> [List.fold_right (fun x acc -> x + 2 * acc) l 0] in
    let ds = List.rev (nib (bits p)) in
    String.concat "" (List.map (fun d -> String.make 1 hexdig.[d]) ds)
let bytes_of_hex (s : string) : n list =
  if s = "-" then [] else
    List.init (String.length s / 2) (fun i -> n_of_int (int_of_string ("0x" ^ String.sub s (2 * i) 2)))
let hex_of_bytes (l : n list) : string =
  if l = [] then "-" else begin
    let b = Buffer.create (2 * List.length l) in
    List.iter (fun x -> let v = int_of_n x in
                Buffer.add_char b hexdig.[(v lsr 4) land 15]; Buffer.add_char b hexdig.[v land 15]) l;
    Buffer.contents b end
let kinds = [ "i8", KInt8; "i16", KInt16; "i32", KInt32; "i64", KInt64; "u8", KUInt8; "u16", KUInt16;
              "u32", KUInt32; "u64", KUInt64; "ch", KChar; "sz", KSize; "by", KByte; "fl", KFloat;
              "db", KDouble; "bo", KBoolean; "po", KPosition ]
let kind_name k = fst (List.find (fun (_, k') -> k' = k) kinds)
let parse_leaf (ws : string list) : leaf option =
  match ws with
  | ["P"; k; v] -> (match List.assoc_opt k kinds with Some k -> Some (LPrim (k, n_of_hex v)) | None -> None)
  | ["R"; h] -> Some (LRaw (bytes_of_hex h))
  | ["S"; h] -> Some (LStr (bytes_of_hex h))
  | ["Q"; s; t] -> Some (LPtr (s = "s", if t = "n" then None else Some (n_of_int (int_of_string t))))
  | ["O"; id] -> Some (LPos (n_of_int (int_of_string id)))
  | _ -> None
let rec split_on (sep : string) (ws : string list) : string list list =
  let rec go cur acc = function
    | [] -> List.rev (List.rev cur :: acc)
    | w :: r when w = sep -> go [] (List.rev cur :: acc) r
    | w :: r -> go (w :: cur) acc r in
  go [] [] ws
let parse_item_words (ws : string list) : item option =
  match ws with
  | "B" :: c :: id :: "[" :: rest ->
    let rest = List.filter (fun w -> w <> "]") rest in
    let groups = List.filter (fun g -> g <> []) (split_on ";" rest) in
    let ls = List.map parse_leaf groups in
    if List.mem None ls then None
    else Some (IObj (n_of_int (int_of_string c), n_of_int (int_of_string id),
                     List.map (function Some l -> l | None -> assert false) ls))
  | _ -> (match parse_leaf ws with Some l -> Some (ILeaf l) | None -> None)
let parse_item (l : string) : item option = parse_item_words (words l)
let leaf_str (l : leaf) : string =
  match l with
  | LPrim (k, v) -> Printf.sprintf "P %s %s" (kind_name k) (hex_of_n v)
  | LRaw bs -> "R " ^ hex_of_bytes bs
  | LStr bs -> "S " ^ hex_of_bytes bs
  | LPtr (s, t) -> Printf.sprintf "Q %s %s" (if s then "s" else "p")
                     (match t with None -> "n" | Some t -> string_of_int (int_of_n t))
  | LPos id -> Printf.sprintf "O %d" (int_of_n id)
let item_str (it : item) : string =
  match it with
  | ILeaf l -> leaf_str l
  | IObj (c, id, body) ->
    if body = [] then Printf.sprintf "B %d %d [ ]" (int_of_n c) (int_of_n id) else
    Printf.sprintf "B %d %d [ %s ]" (int_of_n c) (int_of_n id) (String.concat " ; " (List.map leaf_str body))
let err_str (e : err) : string =
  match e with
  | InvalidArchiveHeader -> "InvalidArchiveHeader"
  | WrongVersion -> "WrongVersion"
  | ReadStreamFail -> "ReadStreamFail"
  | TypeError (a, b) -> Printf.sprintf "TypeError %s %s" (hex_of_n a) (hex_of_n b)
  | InvalidClass -> "InvalidClass"
  | ObjectClassError -> "ObjectClassError"
  | ReadPastEndObject -> "ReadPastEndObject"
  | NotReadEntireDataObject -> "NotReadEntireDataObject"
let parse_hdr (ws : string list) : hdr =
  match ws with
  | m :: v :: nm :: _ -> { h_magic = bytes_of_hex m; h_version = n_of_int (int_of_string v); h_name = bytes_of_hex nm }
  | _ -> { h_magic = bytes_of_hex "4d465553"; h_version = n_of_int 1; h_name = [] }
let split_bar (ws : string list) : string list list = split_on "|" ws
let parse_damage (l : string) : damage option =
  match words l with
  | "T" :: n :: _ -> Some (DTrunc (n_of_int (int_of_string n)))
  | "S" :: subs :: _ ->
    let one s = match String.split_on_char ':' s with
      | [p; v] -> (n_of_int (int_of_string p), n_of_int (int_of_string ("0x" ^ v)))
      | _ -> failwith "bad substitution" in
    Some (DSubst (List.map one (String.split_on_char ',' subs)))
  | _ -> None
let class_char (c : fclass) : char =
  match c with
  | CHeader -> 'H' | CTag -> 'T'
  | CP PVer -> 'V' | CP PSize -> 'Z' | CP PName -> 'N' | CP POther -> '.'
let lay_str (l : fclass list) : string =
  if l = [] then "-" else String.init (List.length l) (fun i -> class_char (List.nth l i))
let lay_string (l : fclass list) : string =
  if l = [] then "-" else begin
    let b = Buffer.create 256 in List.iter (fun c -> Buffer.add_char b (class_char c)) l; Buffer.contents b end
let outcome_str (intact : outcome) (o : outcome) : string =
  match o with
  | OOk its -> (match intact with OOk its0 when its0 = its -> "ok same" | _ -> "ok changed")
  | OErr e -> "err " ^ err_str e
  | OUndef -> "undef"
let expect_str (e : expect) : string =
  match e with EErr -> "err" | EOkSame -> "oksame" | EAny -> "any"
let () =
  let mode = if Array.length Sys.argv > 1 then Sys.argv.(1) else "model" in
  let lines = read_lines stdin in
  let rec cases ls = match ls with
    | [] -> ()
    | l :: rest ->
      (match words l with
       | "case" :: id :: hw ->
         let groups = split_bar hw in
         let (hwords, itemws) = (match groups with g :: r -> (g, r) | [] -> ([], [])) in
         let items = List.filter_map parse_item_words (List.filter (fun g -> g <> []) itemws) in
         let h = parse_hdr hwords in
         let rec take acc ls = match ls with
           | [] -> (List.rev acc, [])
           | l :: r -> (match parse_damage l with Some o -> take ((l, o) :: acc) r | None -> (List.rev acc, ls)) in
         let (ops, rest) = take [] rest in
         Printf.printf "case %s\n" id;
         if mode = "layout" then begin
           Printf.printf "b %s\n" (hex_of_bytes (write h items));
           Printf.printf "l %s\n" (lay_string (wlayout h items));
           Printf.printf "r %s\n" (lay_string (rlayout h items));
           Printf.printf "w %d\n" (if wf_case h items then 1 else 0);
           Printf.printf "g %d%d\n" (if check_after_read then 1 else 0) (if version_test_is_or then 1 else 0)
         end else begin
           let intact = read_cur h items (write h items) in
           let ds = List.map snd ops in
           List.iter2 (fun (l, _) o -> Printf.printf "m %s => %s\n" (String.trim l) (outcome_str intact o)) ops (run_damages h items ds);
           List.iter2 (fun (l, _) e -> Printf.printf "s %s => %s\n" (String.trim l) (expect_str e)) ops (spec_damages h items ds)
         end;
         print_string "end\n";
         cases (match rest with "end" :: r -> r | r -> r)
       | _ -> cases rest)
  in cases lines
