(* C19 driver.
   stdin:   "case <id> <blocksize>" then one op per line: "A k1 k2 .." | "F h" | "X"; "end"
   mode "model":   prints the model's events and the monitor's verdict on them
   mode "monitor": stdin additionally carries, after "trace", the implementation's event
                   lines for that case; prints only the monitor's verdict on those.
   event lines: alloc <h> <blk> <slot> <cnt> <nb> | free <h> <log,..> <cnt> <nb>
                | skip <cnt> <nb> | freeall <log,..> <cnt> <nb> | hang <cnt> <nb>   (cnt -1 = none) *)
let parse_op (l : string) : op option =
  match words l with
  | "A" :: ks -> Some (OAlloc (List.map (fun k -> n_of_int (int_of_string k)) ks))
  | ["F"; h] -> Some (OFree (n_of_int (int_of_string h)))
  | ["X"] -> Some OFreeAll
  | _ -> None

let cnt_str = function Some c -> string_of_int (int_of_nat c) | None -> "-1"
let log_str l = if l = [] then "-" else ilist (List.map int_of_n l)
let print_ev (e : ev) =
  let tail = Printf.sprintf "%s %d" (cnt_str e.cnt) (int_of_n e.nb) in
  match e.kind with
  | EAlloc (h, (bk, sl)) -> Printf.printf "alloc %d %d %d %s\n" (int_of_n h) (int_of_n bk) (int_of_n sl) tail
  | EFree (h, lg) -> Printf.printf "free %d %s %s\n" (int_of_n h) (log_str lg) tail
  | ESkip -> Printf.printf "skip %s\n" tail
  | EFreeAll lg -> Printf.printf "freeall %s %s\n" (log_str lg) tail
  | EHang -> Printf.printf "hang %s\n" tail

let parse_log s = if s = "-" then [] else List.map (fun x -> n_of_int (int_of_string x)) (String.split_on_char ',' s)
let parse_cnt s = let i = int_of_string s in if i < 0 then None else Some (nat_of_int i)
let parse_ev (l : string) : ev option =
  match words l with
  | ["alloc"; h; bk; sl; c; nb] ->
      Some { kind = EAlloc (n_of_int (int_of_string h), (n_of_int (int_of_string bk), n_of_int (int_of_string sl)));
             cnt = parse_cnt c; nb = n_of_int (int_of_string nb) }
  | ["free"; h; lg; c; nb] -> Some { kind = EFree (n_of_int (int_of_string h), parse_log lg); cnt = parse_cnt c; nb = n_of_int (int_of_string nb) }
  | ["skip"; c; nb] -> Some { kind = ESkip; cnt = parse_cnt c; nb = n_of_int (int_of_string nb) }
  | ["freeall"; lg; c; nb] -> Some { kind = EFreeAll (parse_log lg); cnt = parse_cnt c; nb = n_of_int (int_of_string nb) }
  | ["hang"; c; nb] -> Some { kind = EHang; cnt = parse_cnt c; nb = n_of_int (int_of_string nb) }
  | _ -> None

let verdict b ops evs =
  match spec_first_bad (n_of_int b) abs_init ops evs O with
  | None -> print_string "verdict ok\n"
  | Some i -> Printf.printf "verdict bad %d\n" (int_of_nat i)

let () =
  let mode = if Array.length Sys.argv > 1 then Sys.argv.(1) else "model" in
  let lines = read_lines stdin in
  let rec cases ls =
    match ls with
    | [] -> ()
    | l :: rest ->
      (match words l with
       | ["case"; id; b] ->
           let b = int_of_string b in
           let rec take_ops acc ls = match ls with
             | [] -> (List.rev acc, [])
             | l :: r -> (match parse_op l with Some o -> take_ops (o :: acc) r | None -> (List.rev acc, ls)) in
           let (ops, rest) = take_ops [] rest in
           Printf.printf "case %s %d\n" id b;
           let rest =
             if mode = "monitor" then begin
               let rest = (match rest with "trace" :: r -> r | r -> r) in
               let rec take_evs acc ls = match ls with
                 | [] -> (List.rev acc, [])
                 | l :: r -> (match parse_ev l with Some e -> take_evs (e :: acc) r | None -> (List.rev acc, ls)) in
               let (evs, rest) = take_evs [] rest in
               verdict b ops evs; rest
             end else begin
               let evs = run (nat_of_int b) ops in
               List.iter print_ev evs; verdict b ops evs; rest
             end in
           print_string "end\n";
           cases (match rest with "end" :: r -> r | r -> r)
       | _ -> cases rest)
  in cases lines
