(* C06 driver.  stdin: "case <id>", ops, "end".
   ops:  S <tid> <instr>*  (instr: p<m> | w<ms>; the tid is informational, threads are
         numbered in start order)  |  T <dt>  |  X
   prints per op  m <prints|-> idle=<0|1> waiting=<0|1>  (model) then  s ...  (specification) *)
let parse_instr (w : string) : instr option =
  if String.length w < 2 then None
  else
    let v = int_of_string (String.sub w 1 (String.length w - 1)) in
    match w.[0] with
    | 'p' -> Some (IPrint (n_of_int v))
    | 'w' -> Some (IWait (n_of_int v))
    | _ -> None
let parse_op (l : string) : op option =
  match words l with
  | "S" :: _ :: instrs -> Some (OStart (List.filter_map parse_instr instrs))
  | ["T"; d] -> Some (OAdvance (n_of_int (int_of_string d)))
  | ["X"] -> Some OExecute
  | _ -> None
let obs_str (o : obs) : string =
  let d = if o.prints = [] then "-" else
      String.concat "," (List.map (fun (t, m) -> Printf.sprintf "%d:%d" (int_of_n t) (int_of_n m)) o.prints) in
  Printf.sprintf "%s idle=%d waiting=%d" d (if o.idle then 1 else 0) (if o.waiting then 1 else 0)
let () =
  let lines = read_lines stdin in
  let rec cases ls = match ls with
    | [] -> ()
    | l :: rest ->
      (match words l with
       | "case" :: id :: _ ->
         let rec take acc ls = match ls with
           | [] -> (List.rev acc, [])
           | l :: r -> (match parse_op l with Some o -> take (o :: acc) r | None -> (List.rev acc, ls)) in
         let (ops, rest) = take [] rest in
         Printf.printf "case %s\n" id;
         List.iter (function Some o -> Printf.printf "m %s\n" (obs_str o) | None -> print_string "m hang\n") (run ops);
         List.iter (function Some o -> Printf.printf "s %s\n" (obs_str o) | None -> print_string "s hang\n") (spec_run ops);
         print_string "end\n";
         cases (match rest with "end" :: r -> r | r -> r)
       | _ -> cases rest)
  in cases lines
