(*USE_Z*)
(* C18con driver.  stdin: "case <id> <nslots>", ops, "end".
   ops (s,t slots; i,n,k naturals; v integer):
     AD s v | AF s | AN s v | AU s v | AA s i v | IA s i v | SA s i v | RA s i | RO s v | RP s k
     OA s i | IO s v | IL s v | RS s n | SN s n | SU s n v | SH s | CL s | FR s | SO s
     CT s | CN s n | CC s t | MC s t | CA s t | MA s t
   prints  "safe 0|1" (the history avoids the known-defective operations),
   per op  m r=<ret> s0=[..] s1=[..] .. live=<n> bad=<n> cap=<c0>,<c1>,..   (model)
   per op  s r=<ret> s0=[..] s1=[..] .. live=<n> bad=<n>                     (specification)
   ret: - | v<int> | e<index> | pre *)
let nn s = n_of_int (int_of_string s)
let zz s = z_of_int (int_of_string s)
let parse_op l = match words l with
  | ["AD"; s; v] -> Some (OAdd (nn s, zz v))
  | ["AF"; s] -> Some (OAddDef (nn s))
  | ["AN"; s; v] -> Some (OAddNew (nn s, zz v))
  | ["AU"; s; v] -> Some (OAddUnique (nn s, zz v))
  | ["AA"; s; i; v] -> Some (OAddAt (nn s, nn i, zz v))
  | ["IA"; s; i; v] -> Some (OInsertAt (nn s, nn i, zz v))
  | ["SA"; s; i; v] -> Some (OSetAt (nn s, nn i, zz v))
  | ["RA"; s; i] -> Some (ORemoveAt (nn s, nn i))
  | ["RO"; s; v] -> Some (ORemove (nn s, zz v))
  | ["RP"; s; k] -> Some (ORemovePtr (nn s, nn k))
  | ["OA"; s; i] -> Some (OObjectAt (nn s, nn i))
  | ["IO"; s; v] -> Some (OIndexOf (nn s, zz v))
  | ["IL"; s; v] -> Some (OInList (nn s, zz v))
  | ["RS"; s; n] -> Some (OResize (nn s, nn n))
  | ["SN"; s; n] -> Some (OSetNum (nn s, nn n))
  | ["SU"; s; n; v] -> Some (OSetNumU (nn s, nn n, zz v))
  | ["SH"; s] -> Some (OShrink (nn s))
  | ["CL"; s] -> Some (OClear (nn s))
  | ["FR"; s] -> Some (OFree (nn s))
  | ["SO"; s] -> Some (OSort (nn s))
  | ["CT"; s] -> Some (OCtor (nn s))
  | ["CN"; s; n] -> Some (OCtorN (nn s, nn n))
  | ["CC"; s; t] -> Some (OCopyCtor (nn s, nn t))
  | ["MC"; s; t] -> Some (OMoveCtor (nn s, nn t))
  | ["CA"; s; t] -> Some (OCopyAssign (nn s, nn t))
  | ["MA"; s; t] -> Some (OMoveAssign (nn s, nn t))
  | _ -> None
let ret_str = function
  | RNone -> "-"
  | RVal z -> Printf.sprintf "v%d" (int_of_z z)
  | RErr i -> Printf.sprintf "e%d" (int_of_n i)
  | RPre -> "pre"
let obs_str (o : obs) : string =
  let sl = List.mapi (fun i l -> Printf.sprintf "s%d=[%s]" i (ilist (List.map int_of_z l))) o.o_slots in
  Printf.sprintf "r=%s %s live=%d bad=%d" (ret_str o.o_ret) (String.concat " " sl)
    (int_of_z o.o_live) (int_of_n o.o_bad)
let () =
  let lines = read_lines stdin in
  let rec cases ls = match ls with
    | [] -> ()
    | l :: rest ->
      (match words l with
       | ["case"; id; ns] ->
         let ns = nn ns in
         let rec take acc ls = match ls with
           | [] -> (List.rev acc, [])
           | l :: r -> (match parse_op l with Some o -> take (o :: acc) r | None -> (List.rev acc, ls)) in
         let (ops, rest) = take [] rest in
         Printf.printf "case %s\n" id;
         Printf.printf "safe %d\n" (if safe_hist ns ops then 1 else 0);
         List.iter (fun (o, cs) -> Printf.printf "m %s cap=%s\n" (obs_str o) (ilist (List.map int_of_n cs))) (run_full ns ops);
         List.iter (fun o -> Printf.printf "s %s\n" (obs_str o)) (spec_run ns ops);
         print_string "end\n";
         cases (match rest with "end" :: r -> r | r -> r)
       | _ -> cases rest)
  in cases lines
