(* C10 driver.  stdin: "case <id> <magic-hex> <version-dec> <name-hex|->", items, "end".
   item:  P <kind> <hex value>  |  R <hex|->  |  S <hex|->  |  Q <s|p> <id|n>  |  O <id>
          |  V <key: * | ~ | hex> <token> <token> ...   (a script variable, see harness/C10.cpp)
          |  B <class> <id> [ leaf ; leaf ; ... ]
   prints: "b <hex of the written bytes>", per item "m <item read back by the model>" (or
   "m ! <outcome>" when the read does not succeed), per item "s <item the spec demands>" *)
let hexdig = "0123456789abcdef"
let n_of_hex (s : string) : n =
  let bits = ref [] in
  String.iter (fun ch ->
      let v = int_of_string ("0x" ^ String.make 1 ch) in
      bits := (v land 1 <> 0) :: (v land 2 <> 0) :: (v land 4 <> 0) :: (v land 8 <> 0) :: !bits) s;
  let rec drop = function false :: r -> drop r | l -> l in
  match drop (List.rev !bits) with
  | [] -> N0
  | _ :: r -> Npos (List.fold_left (fun acc b -> if b then XI acc else XO acc) XH r)
let hex_of_n (x : n) : string =
  match x with
  | N0 -> "0"
  | Npos p ->
    let rec bits p = match p with XH -> [1] | XO q -> 0 :: bits q | XI q -> 1 :: bits q in
    let rec nib l = match l with
      | [] -> []
      | a :: b :: c :: d :: r -> (a + 2 * b + 4 * c + 8 * d) :: nib r
      | l -> [List.fold_right (fun x acc -> x + 2 * acc) l 0] in
    let ds = List.rev (nib (bits p)) in
    String.concat "" (List.map (fun d -> String.make 1 hexdig.[d]) ds)
let bytes_of_hex (s : string) : n list =
  if s = "-" then [] else
    List.init (String.length s / 2) (fun i -> n_of_int (int_of_string ("0x" ^ String.sub s (2 * i) 2)))
let hex_of_bytes (l : n list) : string =
  if l = [] then "-" else begin
    let b = Buffer.create (2 * List.length l) in
    List.iter (fun x -> let v = int_of_n x in
                Buffer.add_char b hexdig.[(v lsr 4) land 15]; Buffer.add_char b hexdig.[v land 15]) l;
    Buffer.contents b end
let kinds = [ "i8", KInt8; "i16", KInt16; "i32", KInt32; "i64", KInt64; "u8", KUInt8; "u16", KUInt16;
              "u32", KUInt32; "u64", KUInt64; "ch", KChar; "sz", KSize; "by", KByte; "fl", KFloat;
              "db", KDouble; "bo", KBoolean; "po", KPosition ]
let kind_name k = fst (List.find (fun (_, k') -> k' = k) kinds)
let id_opt (t : string) : n option = if t = "n" then None else Some (n_of_int (int_of_string t))
let num (t : string) : n = n_of_int (int_of_string t)
(* token: <vid>:<kind>[:args]   (see the header comment of harness/C10.cpp) *)
let parse_tok (w : string) : n option tok option =
  match String.split_on_char ':' w with
  | vid :: rest ->
    let b = (match rest with
        | ["n"] -> Some TNone
        | ["s"; h] -> Some (TStr (bytes_of_hex h))
        | ["i"; v] -> Some (TPrim (VInt, n_of_hex v))
        | ["f"; v] -> Some (TPrim (VFloat, n_of_hex v))
        | ["c"; v] -> Some (TPrim (VChar, n_of_hex v))
        | ["k"; "~"] -> Some (TCStr None)
        | ["k"; h] -> Some (TCStr (Some (bytes_of_hex h)))
        | ["L"; t] -> Some (TPtr (VListener, id_opt t))
        | ["R"; t] -> Some (TPtr (VRef, id_opt t))
        | ["C"; t] -> Some (TPtr (VContainer, id_opt t))
        | ["S"; t] -> Some (TPtr (VSafeContainer, id_opt t))
        | "A" :: hid :: rc :: tl :: thr :: tli :: count :: _ ->
          Some (TArrayNew (num hid, num rc, num tl, num thr, num tli, num count))
        | ["K"; hid; rc; size] -> Some (TConstArrayNew (num hid, num rc, num size))
        | ["P"; pid; ts] ->
          Some (TPointerNew (num pid, if ts = "-" then [] else List.map id_opt (String.split_on_char '/' ts)))
        | ["h"; k; hid] ->
          Some (THolderRef ((match k with "A" -> HArray | "K" -> HConstArray | _ -> HPointer), id_opt hid))
        | ["v"; h] -> Some (TVector (bytes_of_hex h))
        | _ -> None) in
    (match b with Some b -> (try Some { t_vid = num vid; t_body = b } with _ -> None) | None -> None)
  | [] -> None
let parse_key (k : string) : n list option option =
  if k = "*" then None else if k = "~" then Some None else Some (Some (bytes_of_hex k))
let parse_leaf (ws : string list) : leaf option =
  match ws with
  | "V" :: key :: toks ->
    let ts = List.map parse_tok toks in
    if List.mem None ts then None
    else Some (LVar (parse_key key, List.map (function Some t -> t | None -> assert false) ts))
  | ["P"; k; v] -> (match List.assoc_opt k kinds with Some k -> Some (LPrim (k, n_of_hex v)) | None -> None)
  | ["R"; h] -> Some (LRaw (bytes_of_hex h))
  | ["S"; h] -> Some (LStr (bytes_of_hex h))
  | ["Q"; s; t] -> Some (LPtr (s = "s", if t = "n" then None else Some (n_of_int (int_of_string t))))
  | ["O"; id] -> Some (LPos (n_of_int (int_of_string id)))
  | _ -> None
let rec split_on (sep : string) (ws : string list) : string list list =
  let rec go cur acc = function
    | [] -> List.rev (List.rev cur :: acc)
    | w :: r when w = sep -> go [] (List.rev cur :: acc) r
    | w :: r -> go (w :: cur) acc r in
  go [] [] ws
let parse_item_words (ws : string list) : item option =
  match ws with
  | ("B" | "N" | "U") :: c :: id :: "[" :: rest ->      (* N: loaded with ReadObject<T>() - the same record, the same model *)
    let rec upto = function [] -> [] | "]" :: _ -> [] | w :: r -> w :: upto r in   (* "] @ ..." : the harness's business *)
    let rest = upto rest in
    let groups = List.filter (fun g -> g <> []) (split_on ";" rest) in
    let ls = List.map parse_leaf groups in
    if List.mem None ls then None
    else Some (IObj (n_of_int (int_of_string c), n_of_int (int_of_string id),
                     List.map (function Some l -> l | None -> assert false) ls))
  | _ -> (match parse_leaf ws with Some l -> Some (ILeaf l) | None -> None)
let parse_item (l : string) : item option = parse_item_words (words l)
(* ---- canonical text of a script variable: entries of an array sorted by key text, nested
   variable identities masked, holders numbered by first visit (state per printed outcome) *)
type node = { nvid : int; nbody : n option tbody; nkids : node list }
let rec build (ts : n option tok list) : node * n option tok list =
  match ts with
  | [] -> ({ nvid = 0; nbody = TNone; nkids = [] }, [])
  | t :: r ->
    let k = int_of_n (kids t.t_body) in
    let rec take i r acc = if i = 0 then (List.rev acc, r) else
        (match r with [] -> (List.rev acc, []) | _ -> let (c, r') = build r in take (i - 1) r' (c :: acc)) in
    let (cs, r') = take k r [] in
    ({ nvid = int_of_n t.t_vid; nbody = t.t_body; nkids = cs }, r')
let holders : (int, node) Hashtbl.t = Hashtbl.create 16
let labels : (int, int) Hashtbl.t = Hashtbl.create 16
let rec collect (nd : node) : unit =
  (match nd.nbody with
   | TArrayNew (hid, _, _, _, _, _) | TConstArrayNew (hid, _, _) | TPointerNew (hid, _) ->
     if not (Hashtbl.mem holders (int_of_n hid)) then Hashtbl.replace holders (int_of_n hid) nd
   | _ -> ());
  List.iter collect nd.nkids
let tgt_str (t : n option) : string = match t with None -> "n" | Some x -> string_of_int (int_of_n x)
let scalar_str (b : n option tbody) : string =
  match b with
  | TNone -> "n"
  | TStr bs -> "s:" ^ hex_of_bytes bs
  | TPrim (VInt, v) -> "i:" ^ hex_of_n v
  | TPrim (VFloat, v) -> "f:" ^ hex_of_n v
  | TPrim (VChar, v) -> "c:" ^ hex_of_n v
  | TCStr None -> "k:~"
  | TCStr (Some bs) -> "k:" ^ hex_of_bytes bs
  | TPtr (VListener, t) -> "L:" ^ tgt_str t
  | TPtr (VRef, t) -> "R:" ^ tgt_str t
  | TPtr (VContainer, t) -> "C:" ^ tgt_str t
  | TPtr (VSafeContainer, t) -> "S:" ^ tgt_str t
  | TVector bs -> "v:" ^ hex_of_bytes bs
  | _ -> "?"
let rec pairs (l : node list) : (node * node) list =
  match l with k :: v :: r -> (k, v) :: pairs r | _ -> []
let rec value_str (nd : node) : string =
  match nd.nbody with
  | TArrayNew (hid, _, _, _, _, _) -> holder_str 'A' (int_of_n hid)
  | TConstArrayNew (hid, _, _) -> holder_str 'K' (int_of_n hid)
  | TPointerNew (hid, _) -> holder_str 'P' (int_of_n hid)
  | THolderRef (k, Some hid) -> holder_str (match k with HArray -> 'A' | HConstArray -> 'K' | HPointer -> 'P') (int_of_n hid)
  | THolderRef (_, None) -> "h:n"
  | b -> scalar_str b
and holder_str (k : char) (hid : int) : string =
  match Hashtbl.find_opt labels hid with
  | Some l -> Printf.sprintf "%c#%d" k l
  | None ->
    let l = Hashtbl.length labels + 1 in
    Hashtbl.replace labels hid l;
    (match Hashtbl.find_opt holders hid with
     | None -> Printf.sprintf "%c#%d?" k l
     | Some nd ->
       (match nd.nbody with
        | TArrayNew (_, rc, _, _, _, _) ->
          let ps = List.sort (fun (a, _) (b, _) -> compare (scalar_str a.nbody) (scalar_str b.nbody)) (pairs nd.nkids) in
          Printf.sprintf "A#%d/%d{%s}" l (int_of_n rc)
            (String.concat "," (List.map (fun (a, b) -> let ks = scalar_str a.nbody in ks ^ "=>" ^ value_str b) ps))
        | TConstArrayNew (_, rc, _) ->
          Printf.sprintf "K#%d/%d[%s]" l (int_of_n rc) (String.concat "," (List.map value_str nd.nkids))
        | TPointerNew (_, ts) -> Printf.sprintf "P#%d(%s)" l (String.concat "," (List.map tgt_str ts))
        | _ -> "?"))
let key_str (k : n list option option) : string =
  match k with None -> "*" | Some None -> "~" | Some (Some bs) -> hex_of_bytes bs
let var_str (key : n list option option) (ts : n option tok list) : string =
  let (nd, _) = build ts in
  Printf.sprintf "V %s %d=%s" (key_str key) nd.nvid (value_str nd)
let reset_canon (its : item list) : unit =
  Hashtbl.reset holders; Hashtbl.reset labels;
  let leaf = function LVar (_, ts) -> collect (fst (build ts)) | _ -> () in
  List.iter (function ILeaf l -> leaf l | IObj (_, _, body) -> List.iter leaf body) its
let leaf_str (l : leaf) : string =
  match l with
  | LVar (key, ts) -> var_str key ts
  | LPrim (k, v) -> Printf.sprintf "P %s %s" (kind_name k) (hex_of_n v)
  | LRaw bs -> "R " ^ hex_of_bytes bs
  | LStr bs -> "S " ^ hex_of_bytes bs
  | LPtr (s, t) -> Printf.sprintf "Q %s %s" (if s then "s" else "p")
                     (match t with None -> "n" | Some t -> string_of_int (int_of_n t))
  | LPos id -> Printf.sprintf "O %d" (int_of_n id)
let item_str (it : item) : string =
  match it with
  | ILeaf l -> leaf_str l
  | IObj (c, id, body) ->
    if body = [] then Printf.sprintf "B %d %d [ ]" (int_of_n c) (int_of_n id) else
    Printf.sprintf "B %d %d [ %s ]" (int_of_n c) (int_of_n id) (String.concat " ; " (List.map leaf_str body))
let err_str (e : err) : string =
  match e with
  | InvalidArchiveHeader -> "InvalidArchiveHeader"
  | WrongVersion -> "WrongVersion"
  | ReadStreamFail -> "ReadStreamFail"
  | TypeError (a, b) -> Printf.sprintf "TypeError %s %s" (hex_of_n a) (hex_of_n b)
  | InvalidClass -> "InvalidClass"
  | ObjectClassError -> "ObjectClassError"
  | ReadPastEndObject -> "ReadPastEndObject"
  | NotReadEntireDataObject -> "NotReadEntireDataObject"
let parse_hdr (ws : string list) : hdr =
  match ws with
  | m :: v :: nm :: _ -> { h_magic = bytes_of_hex m; h_version = n_of_int (int_of_string v); h_name = bytes_of_hex nm }
  | _ -> { h_magic = bytes_of_hex "4d465553"; h_version = n_of_int 1; h_name = [] }
let letters : string list ref = ref []      (* B / N of every item of the case, to print them back as they came *)
let relabel (i : int) (s : string) : string =
  match List.nth_opt !letters i with
  | Some (("N" | "U") as l) when String.length s > 1 && s.[0] = 'B' -> l ^ String.sub s 1 (String.length s - 1)
  | _ -> s
let print_outcome (pfx : string) (n : int) (o : outcome) : unit =
  match o with
  | OOk its -> reset_canon its; List.iteri (fun i it -> Printf.printf "%s %s\n" pfx (relabel i (item_str it))) its
  | OErr e -> for _ = 1 to max n 1 do Printf.printf "%s ! err %s\n" pfx (err_str e) done
  | OUndef -> for _ = 1 to max n 1 do Printf.printf "%s ! undef\n" pfx done
let () =
  let lines = read_lines stdin in
  let rec cases ls = match ls with
    | [] -> ()
    | l :: rest ->
      (match words l with
       | "case" :: id :: hw ->
         let rec take acc ls = match ls with
           | [] -> (List.rev acc, [])
           | l :: r -> (match parse_item l with Some o -> take ((o, (match words l with w :: _ -> w | [] -> "")) :: acc) r | None -> (List.rev acc, ls)) in
         let (pairs, rest) = take [] rest in
         let items = List.map fst pairs in
         letters := List.map snd pairs;
         let h = parse_hdr hw in
         Printf.printf "case %s\n" id;
         let (bytes, out) = run_case h items in
         Printf.printf "b %s\n" (hex_of_bytes bytes);
         print_outcome "m" (List.length items) out;
         if wf_case h items then print_outcome "s" (List.length items) (spec_case h items)
         else print_string "s ! not-representable\n";
         print_string "end\n";
         cases (match rest with "end" :: r -> r | r -> r)
       | _ -> cases rest)
  in cases lines
