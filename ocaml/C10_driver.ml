(* C10 driver.  stdin: "case <id> <magic-hex> <version-dec> <name-hex|->", items, "end".
   item:  P <kind> <hex value>  |  R <hex|->  |  S <hex|->  |  Q <s|p> <id|n>  |  O <id>
          |  B <class> <id> [ leaf ; leaf ; ... ]
   prints: "b <hex of the written bytes>", per item "m <item read back by the model>" (or
   "m ! <outcome>" when the read does not succeed), per item "s <item the spec demands>" *)
let hexdig = "0123456789abcdef"
let n_of_hex (s : string) : n =
  let bits = ref [] in
  String.iter (fun ch ->
      let v = int_of_string ("0x" ^ String.make 1 ch) in
      bits := (v land 1 <> 0) :: (v land 2 <> 0) :: (v land 4 <> 0) :: (v land 8 <> 0) :: !bits) s;
  let rec drop = function false :: r -> drop r | l -> l in
  match drop (List.rev !bits) with
  | [] -> N0
  | _ :: r -> Npos (List.fold_left (fun acc b -> if b then XI acc else XO acc) XH r)
let hex_of_n (x : n) : string =
  match x with
  | N0 -> "0"
  | Npos p ->
    let rec bits p = match p with XH -> [1] | XO q -> 0 :: bits q | XI q -> 1 :: bits q in
    let rec nib l = match l with
      | [] -> []
      | a :: b :: c :: d :: r -> (a + 2 * b + 4 * c + 8 * d) :: nib r
      | l -> [List.fold_right (fun x acc -> x + 2 * acc) l 0] in
    let ds = List.rev (nib (bits p)) in
    String.concat "" (List.map (fun d -> String.make 1 hexdig.[d]) ds)
let bytes_of_hex (s : string) : n list =
  if s = "-" then [] else
    List.init (String.length s / 2) (fun i -> n_of_int (int_of_string ("0x" ^ String.sub s (2 * i) 2)))
let hex_of_bytes (l : n list) : string =
  if l = [] then "-" else begin
    let b = Buffer.create (2 * List.length l) in
    List.iter (fun x -> let v = int_of_n x in
                Buffer.add_char b hexdig.[(v lsr 4) land 15]; Buffer.add_char b hexdig.[v land 15]) l;
    Buffer.contents b end
let kinds = [ "i8", KInt8; "i16", KInt16; "i32", KInt32; "i64", KInt64; "u8", KUInt8; "u16", KUInt16;
              "u32", KUInt32; "u64", KUInt64; "ch", KChar; "sz", KSize; "by", KByte; "fl", KFloat;
              "db", KDouble; "bo", KBoolean; "po", KPosition ]
let kind_name k = fst (List.find (fun (_, k') -> k' = k) kinds)
let parse_leaf (ws : string list) : leaf option =
  match ws with
  | ["P"; k; v] -> (match List.assoc_opt k kinds with Some k -> Some (LPrim (k, n_of_hex v)) | None -> None)
  | ["R"; h] -> Some (LRaw (bytes_of_hex h))
  | ["S"; h] -> Some (LStr (bytes_of_hex h))
  | ["Q"; s; t] -> Some (LPtr (s = "s", if t = "n" then None else Some (n_of_int (int_of_string t))))
  | ["O"; id] -> Some (LPos (n_of_int (int_of_string id)))
  | _ -> None
let rec split_on (sep : string) (ws : string list) : string list list =
  let rec go cur acc = function
    | [] -> List.rev (List.rev cur :: acc)
    | w :: r when w = sep -> go [] (List.rev cur :: acc) r
    | w :: r -> go (w :: cur) acc r in
  go [] [] ws
let parse_item_words (ws : string list) : item option =
  match ws with
  | "B" :: c :: id :: "[" :: rest ->
    let rest = List.filter (fun w -> w <> "]") rest in
    let groups = List.filter (fun g -> g <> []) (split_on ";" rest) in
    let ls = List.map parse_leaf groups in
    if List.mem None ls then None
    else Some (IObj (n_of_int (int_of_string c), n_of_int (int_of_string id),
                     List.map (function Some l -> l | None -> assert false) ls))
  | _ -> (match parse_leaf ws with Some l -> Some (ILeaf l) | None -> None)
let parse_item (l : string) : item option = parse_item_words (words l)
let leaf_str (l : leaf) : string =
  match l with
  | LPrim (k, v) -> Printf.sprintf "P %s %s" (kind_name k) (hex_of_n v)
  | LRaw bs -> "R " ^ hex_of_bytes bs
  | LStr bs -> "S " ^ hex_of_bytes bs
  | LPtr (s, t) -> Printf.sprintf "Q %s %s" (if s then "s" else "p")
                     (match t with None -> "n" | Some t -> string_of_int (int_of_n t))
  | LPos id -> Printf.sprintf "O %d" (int_of_n id)
let item_str (it : item) : string =
  match it with
  | ILeaf l -> leaf_str l
  | IObj (c, id, body) ->
    if body = [] then Printf.sprintf "B %d %d [ ]" (int_of_n c) (int_of_n id) else
    Printf.sprintf "B %d %d [ %s ]" (int_of_n c) (int_of_n id) (String.concat " ; " (List.map leaf_str body))
let err_str (e : err) : string =
  match e with
  | InvalidArchiveHeader -> "InvalidArchiveHeader"
  | WrongVersion -> "WrongVersion"
  | ReadStreamFail -> "ReadStreamFail"
  | TypeError (a, b) -> Printf.sprintf "TypeError %s %s" (hex_of_n a) (hex_of_n b)
  | InvalidClass -> "InvalidClass"
  | ObjectClassError -> "ObjectClassError"
  | ReadPastEndObject -> "ReadPastEndObject"
  | NotReadEntireDataObject -> "NotReadEntireDataObject"
let parse_hdr (ws : string list) : hdr =
  match ws with
  | m :: v :: nm :: _ -> { h_magic = bytes_of_hex m; h_version = n_of_int (int_of_string v); h_name = bytes_of_hex nm }
  | _ -> { h_magic = bytes_of_hex "4d465553"; h_version = n_of_int 1; h_name = [] }
let print_outcome (pfx : string) (n : int) (o : outcome) : unit =
  match o with
  | OOk its -> List.iter (fun it -> Printf.printf "%s %s\n" pfx (item_str it)) its
  | OErr e -> for _ = 1 to max n 1 do Printf.printf "%s ! err %s\n" pfx (err_str e) done
  | OUndef -> for _ = 1 to max n 1 do Printf.printf "%s ! undef\n" pfx done
let () =
  let lines = read_lines stdin in
  let rec cases ls = match ls with
    | [] -> ()
    | l :: rest ->
      (match words l with
       | "case" :: id :: hw ->
         let rec take acc ls = match ls with
           | [] -> (List.rev acc, [])
           | l :: r -> (match parse_item l with Some o -> take (o :: acc) r | None -> (List.rev acc, ls)) in
         let (items, rest) = take [] rest in
         let h = parse_hdr hw in
         Printf.printf "case %s\n" id;
         let (bytes, out) = run_case h items in
         Printf.printf "b %s\n" (hex_of_bytes bytes);
         print_outcome "m" (List.length items) out;
         if wf_case h items then print_outcome "s" (List.length items) (spec_case h items)
         else print_string "s ! not-representable\n";
         print_string "end\n";
         cases (match rest with "end" :: r -> r | r -> r)
       | _ -> cases rest)
  in cases lines
