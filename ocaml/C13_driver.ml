(* C13 driver.  stdin: "case <id> [ext]", ops, "end".
   ops:  S <instr>*  |  T <dt>  |  X  |  R  |  C <k>  |  D
   instr: p<m> | w<ms> | T( .. ) | W( .. ) | R | C | st<k> | ps | xw<k>.<ms> | xf<k> | xp<k>   (see harness/C13.cpp)
   prints per op  m <op> <prints|-> idle= cls= thr= vm= scr= tmr= ev=0 trk=0 ent=0 tmp=0  (model), then the
   same lines with prefix s (specification).  Cases marked `ext` use instructions outside the
   model: nothing is printed for them. *)
let rec parse_prog (ws : string list) : instr list * string list =
  match ws with
  | [] -> ([], [])
  | ")" :: rest -> ([], rest)
  | w :: rest ->
    let one i = let (p, r) = parse_prog rest in (i :: p, r) in
    if w = "T(" || w = "W(" then begin
      let (q, r1) = parse_prog rest in
      let (p, r2) = parse_prog r1 in
      ((if w = "T(" then IThread q else IWaitThread q) :: p, r2)
    end
    else if w = "R" then one IReset
    else if w = "C" then one IRecompile
    else if w = "ps" then one IPause
    else if w = "Wm" then one IWaitMissing
    else if String.length w >= 3 && String.sub w 0 2 = "gp" then one (IGPrint (n_of_int (int_of_string (String.sub w 2 (String.length w - 2)))))
    else if String.length w >= 5 && String.sub w 0 2 = "gs" then begin
      match String.split_on_char '.' (String.sub w 2 (String.length w - 2)) with
      | [v; x] -> one (IGSet (n_of_int (int_of_string v), n_of_int (int_of_string x)))
      | _ -> failwith ("bad instruction " ^ w)
    end
    else if String.length w >= 3 && String.sub w 0 2 = "st" then one (IStore (n_of_int (int_of_string (String.sub w 2 (String.length w - 2)))))
    else if String.length w >= 3 && String.sub w 0 2 = "xp" then one (IXPause (n_of_int (int_of_string (String.sub w 2 (String.length w - 2)))))
    else if String.length w >= 3 && String.sub w 0 2 = "xf" then one (IXWaitFrame (n_of_int (int_of_string (String.sub w 2 (String.length w - 2)))))
    else if String.length w >= 5 && String.sub w 0 2 = "xw" then begin
      match String.split_on_char '.' (String.sub w 2 (String.length w - 2)) with
      | [k; d] -> one (IXWait (n_of_int (int_of_string k), n_of_int (int_of_string d)))
      | _ -> failwith ("bad instruction " ^ w)
    end
    else if String.length w >= 2 && w.[0] = 'p' then one (IPrint (n_of_int (int_of_string (String.sub w 1 (String.length w - 1)))))
    else if String.length w >= 2 && w.[0] = 'w' then one (IWait (n_of_int (int_of_string (String.sub w 1 (String.length w - 1)))))
    else failwith ("bad instruction " ^ w)
let parse_op (l : string) : (string * op) option =
  match words l with
  | "S" :: instrs -> Some ("S", OStart (fst (parse_prog instrs)))
  | ["T"; d] -> Some ("T", OAdvance (n_of_int (int_of_string d)))
  | ["X"] -> Some ("X", OExecute)
  | ["R"] -> Some ("R", OReset)
  | ["C"; k] -> Some ("C", ORecompile (n_of_int (int_of_string k)))
  | ["D"] -> Some ("D", ODestroy)
  | ["M"; k] -> Some ("M", OStartMissing (n_of_int (int_of_string k)))
  | _ -> None
let obs_str (name : string) (o : obs) : string =
  let e = int_of_nat o.err in
  let tail = if e = 1 then " ERR=ub" else if e = 2 then " ERR=hang" else "" in
  if name = "D" then
    (if int_of_nat o.ncls = 0 && int_of_nat o.nthr = 0 && int_of_nat o.nvm = 0 && e = 0 then "D destroyed ent=0 tmp=0"
     else Printf.sprintf "D residue cls=%d thr=%d vm=%d%s" (int_of_nat o.ncls) (int_of_nat o.nthr) (int_of_nat o.nvm) tail)
  else
    let d = if o.prints = [] then "-" else String.concat "," (List.map (fun m -> string_of_int (int_of_n m)) o.prints) in
    Printf.sprintf "%s %s idle=%d cls=%d thr=%d vm=%d scr=%d tmr=%d ev=0 trk=0 ent=0 tmp=0%s" name d
      (if o.idle then 1 else 0) (int_of_nat o.ncls) (int_of_nat o.nthr) (int_of_nat o.nvm) (int_of_nat o.nscr)
      (int_of_nat o.ntmr) tail
let () =
  let lines = read_lines stdin in
  let rec cases ls = match ls with
    | [] -> ()
    | l :: rest ->
      (match words l with
       | "case" :: id :: hdr ->
         let ext = List.mem "ext" hdr in
         let rec take acc ls = match ls with
           | [] -> (List.rev acc, [])
           | l :: r -> if l = "end" then (List.rev acc, ls) else if ext then take acc r else
               (match parse_op l with Some o -> take (o :: acc) r | None -> (List.rev acc, ls)) in
         let (nops, rest) = take [] rest in
         Printf.printf "case %s\n" id;
         if not ext then begin
           let names = List.map fst nops and ops = List.map snd nops in
           (* the model stops being meaningful after the destruction of the context *)
           List.iter2 (fun n o -> Printf.printf "m %s\n" (obs_str n o)) names (run ops);
           List.iter2 (fun n o -> Printf.printf "s %s\n" (obs_str n o)) names (spec_run ops)
         end;
         print_string "end\n";
         cases (match rest with "end" :: r -> r | r -> r)
       | _ -> cases rest)
  in cases lines
