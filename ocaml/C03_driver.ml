(*USE_Z*)
(* C03 driver.  stdin: "case <id> <host args: decimal integers>", then lines of tokens (the
   program in prefix form, see props/C03.py `ser_*`), or lines "lit <decimal>", then "end".
   Prints "case <id>", then for a program
        stuck                         the reference semantics gives no result (outside the core / fuel)
     or o <escaped printed text> / r <value> / v <L|G|P><n> <value> ...
   and for every "lit v" line:  lit <v> <literal path + codec round trip> <constant-folded negation>. *)

let ascii_of_char (c : char) : ascii =
  let b i = (Char.code c lsr i) land 1 = 1 in
  Ascii (b 0, b 1, b 2, b 3, b 4, b 5, b 6, b 7)
let char_of_ascii (a : ascii) : char =
  match a with
  | Ascii (b0, b1, b2, b3, b4, b5, b6, b7) ->
    let v b i = if b then 1 lsl i else 0 in
    Char.chr (v b0 0 + v b1 1 + v b2 2 + v b3 3 + v b4 4 + v b5 5 + v b6 6 + v b7 7)
let str_of_ocaml (s : string) : str = List.init (String.length s) (fun i -> ascii_of_char s.[i])
let ocaml_of_str (l : str) : string = String.concat "" (List.map (fun a -> String.make 1 (char_of_ascii a)) l)

let z_of_dec (s : string) : z =
  let ten = z_of_int 10 in
  let r = ref Z0 in
  String.iter (fun c -> if c >= '0' && c <= '9' then r := Z.add (Z.mul !r ten) (z_of_int (Char.code c - 48))) s;
  if String.length s > 0 && s.[0] = '-' then Z.opp !r else !r
let dec_of_z (x : z) : string = ocaml_of_str (dec x)

let unhex (s : string) : string =
  if s = "-" then "" else
    String.init (String.length s / 2) (fun i -> Char.chr (int_of_string ("0x" ^ String.sub s (2 * i) 2)))

let escape (s : string) : string =
  let b = Buffer.create (String.length s + 8) in
  String.iter (fun c ->
      if c = '\\' then Buffer.add_string b "\\\\"
      else if c = '\n' then Buffer.add_string b "\\n"
      else if Char.code c < 32 || Char.code c > 126 then Buffer.add_string b (Printf.sprintf "\\x%02x" (Char.code c))
      else Buffer.add_char b c) s;
  Buffer.contents b

exception Parse of string

(* ---- token stream ---- *)
let toks : string array ref = ref [||]
let pos = ref 0
let next () : string =
  if !pos >= Array.length !toks then raise (Parse "unexpected end of input");
  let t = !toks.(!pos) in incr pos; t
let next_int () : int = int_of_string (next ())

let p_scope () : scope =
  match next () with
  | "l" -> SLocal | "g" -> SGroup | "v" -> SLevel | "m" -> SGame | "p" -> SParm
  | t -> raise (Parse ("scope " ^ t))

let p_binop () : binop =
  match next () with
  | "add" -> OAdd | "sub" -> OSub | "mul" -> OMul | "div" -> ODiv | "mod" -> OMod
  | "band" -> OBand | "bor" -> OBor | "bxor" -> OBxor | "shl" -> OShl | "shr" -> OShr
  | "eq" -> OEq | "ne" -> ONe | "lt" -> OLt | "le" -> OLe | "gt" -> OGt | "ge" -> OGe
  | t -> raise (Parse ("binop " ^ t))

let rec p_list : 'a. (unit -> 'a) -> int -> 'a list = fun f k ->
  if k <= 0 then [] else let x = f () in x :: p_list f (k - 1)

let rec p_expr () : expr =
  match next () with
  | "i" -> EInt (z_of_dec (next ()))
  | "s" -> EStr (str_of_ocaml (unhex (next ())))
  | "f" -> let _ = next () in let shown = unhex (next ()) in EFlt (str_of_ocaml shown, next () = "1")
  | "nil" -> ENil
  | "var" -> let sc = p_scope () in EVar (sc, n_of_int (next_int ()))
  | "x" -> let a = p_expr () in let i = p_expr () in EIdx (a, i)
  | "neg" -> ENeg (p_expr ())
  | "not" -> ENot (p_expr ())
  | "cpl" -> ECpl (p_expr ())
  | "b" -> let o = p_binop () in let a = p_expr () in let b = p_expr () in EBin (o, a, b)
  | "and" -> let a = p_expr () in let b = p_expr () in EAnd (a, b)
  | "or" -> let a = p_expr () in let b = p_expr () in EOr (a, b)
  | "call" -> let f = n_of_int (next_int ()) in let k = next_int () in ECall (f, p_list p_expr k)
  | "size" -> ESize (p_expr ())
  | "carr" -> let k = next_int () in ECArr (p_list p_expr k)
  | t -> raise (Parse ("expr " ^ t))

let p_lval () : lval =
  (match next () with "lv" -> () | t -> raise (Parse ("lval " ^ t)));
  let sc = p_scope () in
  let x = n_of_int (next_int ()) in
  let k = next_int () in
  { lv_sc = sc; lv_x = x; lv_idx = p_list p_expr k }

let p_param () : scope * n =
  let sc = p_scope () in (sc, n_of_int (next_int ()))

let rec p_stmt () : stmt =
  match next () with
  | "nop" -> SNop
  | "set" -> let l = p_lval () in SSet (l, p_expr ())
  | "cset" -> let o = p_binop () in let l = p_lval () in SCSet (o, l, p_expr ())
  | "inc" -> SInc (p_lval ())
  | "dec" -> SDec (p_lval ())
  | "if" -> let c = p_expr () in SIf (c, p_stmt ())
  | "ife" -> let c = p_expr () in let t = p_stmt () in SIfElse (c, t, p_stmt ())
  | "while" -> let c = p_expr () in SWhile (c, p_stmt ())
  | "for" -> let i = p_stmt () in let c = p_expr () in let inc = p_stmt () in SFor (i, c, inc, p_stmt ())
  | "do" -> let b = p_stmt () in SDo (b, p_expr ())
  | "brk" -> SBreak
  | "cont" -> SContinue
  | "sw" -> let e = p_expr () in let k = next_int () in SSwitch (e, p_list p_switem k)
  | "blk" -> let k = next_int () in SBlock (p_list p_stmt k)
  | "goto" -> let f = n_of_int (next_int ()) in let k = next_int () in SGoto (f, p_list p_expr k)
  | "try" -> let b = p_stmt () in let k = next_int () in STry (b, p_list p_handler k)
  | "throw" -> let f = n_of_int (next_int ()) in let k = next_int () in SThrow (f, p_list p_expr k)
  | "pr" -> let k = next_int () in SPrint (p_list p_expr k)
  | "th" -> let f = n_of_int (next_int ()) in let k = next_int () in SThread (f, p_list p_expr k)
  | "end0" -> SEnd None
  | "end1" -> SEnd (Some (p_expr ()))
  | t -> raise (Parse ("stmt " ^ t))
and p_switem () : switem =
  match next () with
  | "ci" -> ILabel (LInt (z_of_dec (next ())))
  | "cs" -> ILabel (LStr (str_of_ocaml (unhex (next ()))))
  | "cd" -> ILabel LDefault
  | "st" -> IStmt (p_stmt ())
  | t -> raise (Parse ("switch item " ^ t))
and p_handler () : handler =
  let f = n_of_int (next_int ()) in
  let np = next_int () in
  let ps = p_list p_param np in
  let k = next_int () in
  Handler (f, ps, p_list p_stmt k)

let p_item () : item =
  match next () with
  | "lab" -> let f = n_of_int (next_int ()) in let np = next_int () in TLabel (f, p_list p_param np)
  | "st" -> TStmt (p_stmt ())
  | t -> raise (Parse ("item " ^ t))

let p_program () : program =
  (match next () with "prog" -> () | t -> raise (Parse ("prog " ^ t)));
  let k = next_int () in
  p_list p_item k

(* ---- printing ---- *)
let rec nth_opt l i = match l with [] -> None | x :: r -> if i = 0 then Some x else nth_opt r (i - 1)

let repr (g : glob) (v : value) : string =
  match v with
  | VNil -> "nil"
  | VInt x -> "int " ^ dec_of_z x
  | VStr s -> "str " ^ escape (ocaml_of_str s)
  | VFlt (s, _) -> "flt " ^ escape (ocaml_of_str s)
  | VArr p -> (match nth_opt g.g_heap (int_of_nat p) with Some (HArr l) -> Printf.sprintf "arr %d" (List.length l) | _ -> "arr ?")
  | VCArr p -> (match nth_opt g.g_heap (int_of_nat p) with Some (HCArr l) -> Printf.sprintf "carr %d" (List.length l) | _ -> "carr ?")

(* the evaluator's fuel bounds the depth of its recursion; almost every program needs far less
   than the small amount, the large one is only tried when the small one is exhausted *)
let fuel_small = nat_of_int 2500
let fuel_large = nat_of_int 60000

exception Not_fragment
let rec aexpr_of (e : expr) : aexpr =
  match e with
  | EInt v -> ALit v
  | ENeg a -> ANeg (aexpr_of a)
  | ECpl a -> ACpl (aexpr_of a)
  | EBin (o, a, b) -> ABin (o, aexpr_of a, aexpr_of b)
  | _ -> raise Not_fragment

let binop_word (o : binop) : string =
  match o with
  | OAdd -> "add" | OSub -> "sub" | OMul -> "mul" | ODiv -> "div" | OMod -> "mod"
  | OBand -> "band" | OBor -> "bor" | OBxor -> "bxor" | OShl -> "shl" | OShr -> "shr"
  | OEq -> "eq" | ONe -> "ne" | OLt -> "lt" | OLe -> "le" | OGt -> "gt" | OGe -> "ge"

let instr_word (i : instr) : string =
  match i with
  | IPush v -> let (t, p) = encode enc_table enc_default v in Printf.sprintf "I%s:%s" (dec_of_z t) (dec_of_z p)
  | INeg -> "NEG"
  | ICpl -> "CPL"
  | IBin o -> binop_word o

(* "cmp <expr tokens>": the code of the compiler model for a constant integer expression and its value *)
let run_cmp (ws : string list) : unit =
  toks := Array.of_list ws;
  pos := 0;
  (try
     let a = aexpr_of (p_expr ()) in
     Printf.printf "t %s\n" (String.concat " " (List.map instr_word (compile a)));
     (match aeval a with
      | Some z -> Printf.printf "v L0 int %s\n" (dec_of_z z)
      | None -> print_string "v L0 none\n");
     (match vm_run (compile a) [] with
      | Some [z] -> Printf.printf "vm int %s\n" (dec_of_z z)
      | _ -> print_string "vm none\n")
   with Parse m -> Printf.printf "parse-error %s\n" m | Not_fragment -> print_string "parse-error not in the fragment\n")

let run_case (id : string) (args : string list) (body : string list) : unit =
  Printf.printf "case %s\n" id;
  let special l = match words l with "lit" :: _ -> true | "cmp" :: _ -> true | _ -> false in
  let lits = List.filter special body in
  let progl = List.filter (fun l -> not (special l)) body in
  List.iter (fun l -> match words l with "cmp" :: ws -> run_cmp ws | _ -> ()) lits;
  List.iter (fun l -> match words l with
      | ["lit"; v] ->
        let z = z_of_dec v in
        let sh = function Some x -> dec_of_z x | None -> "none" in
        Printf.printf "lit %s %s %s\n" v (sh (lit_roundtrip z)) (sh (lit_negfold z))
      | _ -> ()) lits;
  if progl <> [] then begin
    toks := Array.of_list (List.concat_map words progl);
    pos := 0;
    (match (try Some (p_program ()) with Parse m -> Printf.printf "parse-error %s at token %d\n" m !pos; None
                                          | Failure m -> Printf.printf "parse-error %s at token %d\n" m !pos; None) with
     | None -> ()
     | Some p ->
       let hargs = List.map (fun a -> VInt (z_of_dec a)) args in
       (* a program whose strings grow exponentially exhausts the evaluator's stack: dropped like any
          other program the evaluator has no result for *)
       (match (try (match run_program fuel_small p N0 hargs with Some r -> Some r | None -> run_program fuel_large p N0 hargs)
               with Stack_overflow -> None | Out_of_memory -> None) with
        | None -> print_string "stuck\n"
        | Some (v, g) ->
          let out = String.concat "" (List.rev_map (fun l -> ocaml_of_str l ^ "\n") g.g_out) in
          Printf.printf "o %s\n" (escape out);
          Printf.printf "r %s\n" (repr g v);
          let show tag e k =
            for i = 0 to k do
              Printf.printf "v %s%d %s\n" tag i (repr g (env_get e (n_of_int i)))
            done in
          show "L" g.g_level 7; show "G" g.g_game 3; show "P" g.g_parm 1))
  end;
  print_string "end\n"

let () =
  let lines = read_lines stdin in
  let rec cases ls = match ls with
    | [] -> ()
    | l :: rest ->
      (match words l with
       | "case" :: id :: args ->
         let rec take acc ls = match ls with
           | [] -> (List.rev acc, [])
           | "end" :: r -> (List.rev acc, r)
           | l :: r -> take (l :: acc) r in
         let (body, rest) = take [] rest in
         run_case id args body;
         flush stdout;
         cases rest
       | _ -> cases rest)
  in cases lines
