(*USE_Z*)
(* C18str driver.  stdin: "case <id> <nv>", ops, "end".
   ops (v, w variable slots; lit = literal word, "_" = the empty literal; c = byte code):
     SL v lit | CP v w | CC v w | AC v w | AL v lit | PL v lit | PC v c | AH v c | AS v w
     | PS v w | SC v i c | GC v i | CL v n | MI v c | DE v | CR v | LO v | UP v | CM v w
     | RS v n | RV v n | AN v lit
   prints "case <id>", "p <0|1>" (1 = the history is in the alphabet of the theorem),
   per op  m <obs>  (model) and  s <obs>  (specification), "end".
   obs: <ret> "<c_str>":<length> per variable;  ret: - | c<byte> | e<eq>,<cmp>,<icmp>
   a crash of the model ends its trace: "crash null|overflow|dangling" *)
let nv_ s = n_of_int (int_of_string s)
let nat_ s = nat_of_int (int_of_string s)
let lit_ s =
  if s = "_" then []
  else List.init (String.length s) (fun i -> n_of_int (Char.code s.[i]))
let parse_op l = match words l with
  | ["SL"; v; lit] -> Some (OSetLit (nv_ v, lit_ lit))
  | ["CP"; v; w] -> Some (OCopy (nv_ v, nv_ w))
  | ["CC"; v; w] -> Some (OCtorCopy (nv_ v, nv_ w))
  | ["AC"; v; w] -> Some (OAssignCstr (nv_ v, nv_ w))
  | ["AL"; v; lit] -> Some (OAppendLit (nv_ v, lit_ lit))
  | ["PL"; v; lit] -> Some (OAppendLit (nv_ v, lit_ lit))
  | ["PC"; v; c] -> Some (OAppendLit (nv_ v, [nv_ c]))
  | ["AH"; v; c] -> Some (OAppendChar (nv_ v, nv_ c))
  | ["AS"; v; w] -> Some (OAppendStr (nv_ v, nv_ w))
  | ["PS"; v; w] -> Some (OAppendStr (nv_ v, nv_ w))
  | ["SC"; v; i; c] -> Some (OSetChar (nv_ v, nat_ i, nv_ c))
  | ["GC"; v; i] -> Some (OGetChar (nv_ v, nat_ i))
  | ["CL"; v; n] -> Some (OCap (nv_ v, nat_ n))
  | ["MI"; v; c] -> Some (OMinus (nv_ v, z_of_int (int_of_string c)))
  | ["DE"; v] -> Some (OMinus (nv_ v, z_of_int 1))
  | ["CR"; v] -> Some (OClear (nv_ v))
  | ["LO"; v] -> Some (OLower (nv_ v))
  | ["UP"; v] -> Some (OUpper (nv_ v))
  | ["CM"; v; w] -> Some (OCmp (nv_ v, nv_ w))
  | ["RS"; v; n] -> Some (OResize (nv_ v, nat_ n))
  | ["RV"; v; n] -> Some (OReserve (nv_ v, nat_ n))
  | ["AN"; v; lit] -> Some (OAssignN (nv_ v, lit_ lit))
  | _ -> None
let text_str (l : n list) : string =
  let b = Buffer.create 16 in
  List.iter (fun x ->
      let c = int_of_n x in
      if c > 0x20 && c < 0x7f && c <> 0x22 && c <> 0x5c then Buffer.add_char b (Char.chr c)
      else Buffer.add_string b (Printf.sprintf "\\x%02x" (c land 255))) l;
  Buffer.contents b
let ret_str = function
  | RNone -> "-"
  | RChar c -> Printf.sprintf "c%d" (int_of_n c)
  | RCmp (e, c, ic) -> Printf.sprintf "e%d,%d,%d" (if e then 1 else 0) (int_of_z c) (int_of_z ic)
let obs_str ((r, l) : obs) : string =
  String.concat " " (ret_str r :: List.map (fun (t, n) -> Printf.sprintf "\"%s\":%d" (text_str t) (int_of_nat n)) l)
let crash_str = function NullDeref -> "crash null" | Overflow -> "crash overflow" | Dangling -> "crash dangling"
let () =
  let lines = read_lines stdin in
  let rec cases ls = match ls with
    | [] -> ()
    | l :: rest ->
      (match words l with
       | ["case"; id; nv] ->
         let nv = nat_of_int (int_of_string nv) in
         let rec take acc ls = match ls with
           | [] -> (List.rev acc, [])
           | l :: r -> (match parse_op l with Some o -> take (o :: acc) r | None -> (List.rev acc, ls)) in
         let (ops, rest) = take [] rest in
         Printf.printf "case %s\n" id;
         Printf.printf "p %d\n" (if safe nv ops then 1 else 0);
         List.iter (function Ok o -> Printf.printf "m %s\n" (obs_str o) | Crash c -> Printf.printf "m %s\n" (crash_str c)) (run nv ops);
         List.iter (fun o -> Printf.printf "s %s\n" (obs_str o)) (spec_run nv ops);
         print_string "end\n";
         cases (match rest with "end" :: r -> r | r -> r)
       | _ -> cases rest)
  in cases lines
