(* C07 driver.  stdin: "case <id>", ops, "end".
   ops:  S <instr>*  |  T <dt>  |  X
   instr: p<m> | r | w<ms> | t<o><n> (waittill) | y<o><n>+ (waittill_any) | u<o><ms><n> (waittill_timeout)
        | v<o><ms><n>+ (waittill_any_timeout) | n<o><n> (notify)
        | e<o><n> (endon) | d<o> (delete) | s<o> (spawn) | th[ <instr>* ] | wt[ <instr>* ] | wg[ <instr>* | <instr>* .. ] (group waitthread)
        | end | end<v>          (o = slot digit, n = a|b|c)
   prints per op  m <prints|-> idle=<0|1> ns=<scripts> nt=<threads> tm=<0|1> sz=<9 sizes> stale=<0|1>  (model)
   then  s ...  (specification) *)
let sname_of (c : char) : sname = match c with 'a' -> NA | 'b' -> NB | _ -> NC
let digit (c : char) : n = n_of_int (Char.code c - 48)
let num (w : string) (from : int) : int = int_of_string (String.sub w from (String.length w - from))

(* parse a token list up to the matching "]" or "|" (or the end); returns (program, rest, terminator) *)
let rec parse_prog (ws : string list) : instr list * string list * string =
  match ws with
  | [] -> ([], [], "")
  | "]" :: rest -> ([], rest, "]")
  | "|" :: rest -> ([], rest, "|")
  | w :: rest ->
    let one (i : instr) = let (p, r, t) = parse_prog rest in (i :: p, r, t) in
    if w = "th[" then
      let (body, r1, _) = parse_prog rest in
      let (p, r2, t) = parse_prog r1 in (IThread body :: p, r2, t)
    else if w = "wt[" then
      let (body, r1, _) = parse_prog rest in
      let (p, r2, t) = parse_prog r1 in (IWaitThread body :: p, r2, t)
    else if w = "wg[" then
      let rec bodies ws acc =
        let (b, r, t) = parse_prog ws in
        if t = "|" then bodies r (b :: acc) else (List.rev (b :: acc), r) in
      let (bs, r1) = bodies rest [] in
      let (p, r2, t) = parse_prog r1 in (IWaitThreadGroup bs :: p, r2, t)
    else if w = "end" then one (IEnd None)
    else if String.length w > 3 && String.sub w 0 3 = "end" then one (IEnd (Some (n_of_int (num w 3))))
    else if w = "r" then one IPrintR
    else match w.[0] with
      | 'p' -> one (IPrint (n_of_int (num w 1)))
      | 'w' -> one (IWait (n_of_int (num w 1)))
      | 't' -> one (IWaitTill (digit w.[1], sname_of w.[2]))
      | 'y' -> one (IWaitTillAny (digit w.[1],
                 List.init (String.length w - 2) (fun i -> sname_of w.[i + 2])))
      | 'u' -> one (IWaitTillTimeout (digit w.[1], digit w.[2], sname_of w.[3]))
      | 'v' -> one (IWaitTillAnyTimeout (digit w.[1], digit w.[2],
                 List.init (String.length w - 3) (fun i -> sname_of w.[i + 3])))
      | 'n' -> one (INotify (digit w.[1], sname_of w.[2]))
      | 'e' -> one (IEndOn (digit w.[1], sname_of w.[2]))
      | 'd' -> one (IDelete (digit w.[1]))
      | 's' -> one (ISpawn (digit w.[1]))
      | _ -> parse_prog rest

let parse_op (l : string) : op option =
  match words l with
  | "S" :: toks -> let (p, _, _) = parse_prog toks in Some (OStart p)
  | ["T"; d] -> Some (OAdvance (n_of_int (int_of_string d)))
  | ["X"] -> Some OExecute
  | _ -> None

let pr_str ((t, v) : pr) : string =
  match v with
  | PM m -> Printf.sprintf "%d:%d" (int_of_n t) (int_of_n m)
  | PR RNil -> Printf.sprintf "%d:r=nil" (int_of_n t)
  | PR (RPtr _) -> Printf.sprintf "%d:r=ptr" (int_of_n t)
  | PR (RInt x) -> Printf.sprintf "%d:r=%d" (int_of_n t) (int_of_n x)

let obs_str (o : obs) : string =
  let d = if o.prints = [] then "-" else String.concat "," (List.map pr_str o.prints) in
  Printf.sprintf "%s idle=%d ns=%d nt=%d tm=%d sz=%s stale=%d" d (if o.idle then 1 else 0)
    (int_of_nat o.nscripts) (int_of_nat o.nthreads) (if o.timing then 1 else 0)
    (ilist (List.map int_of_nat o.sizes)) (if o.stale then 1 else 0)

let () =
  let lines = read_lines stdin in
  let rec cases ls = match ls with
    | [] -> ()
    | l :: rest ->
      (match words l with
       | "case" :: id :: _ ->
         let rec take acc ls = match ls with
           | [] -> (List.rev acc, [])
           | l :: r -> (match parse_op l with Some o -> take (o :: acc) r | None -> (List.rev acc, ls)) in
         let (ops, rest) = take [] rest in
         Printf.printf "case %s\n" id;
         List.iter (function Some o -> Printf.printf "m %s\n" (obs_str o) | None -> print_string "m hang\n") (run ops);
         List.iter (function Some o -> Printf.printf "s %s\n" (obs_str o) | None -> print_string "s hang\n") (spec_run ops);
         print_string "end\n";
         cases (match rest with "end" :: r -> r | r -> r)
       | _ -> cases rest)
  in cases lines
