(*USE_Z*)
(* C08 driver.  stdin: "case <id>", ops, "end".
   top-level ops:  X (process) | T <dt> (advance the clock) | <act>
   act:  P l ty delay flags [ act* ]  |  CT l ty  |  CA l  |  CF l flags  |  D l
   prints per op:  m <obs>  (model)  then per op  s <obs>  (specification)
   obs:  <seq>/<l>/<ty>,...|- <npending> <bits> *)
let rec parse_acts (toks : string list) : act list * string list =
  match toks with
  | [] -> ([], [])
  | "]" :: rest -> ([], rest)
  | "P" :: l :: ty :: d :: fl :: "[" :: rest ->
      let (h, rest) = parse_acts rest in
      let a = APost (n_of_int (int_of_string l), n_of_int (int_of_string ty), z_of_int (int_of_string d),
                     n_of_int (int_of_string fl), h) in
      let (more, rest) = parse_acts rest in (a :: more, rest)
  | "CT" :: l :: ty :: rest ->
      let (more, rest) = parse_acts rest in
      (ACancelType (n_of_int (int_of_string l), n_of_int (int_of_string ty)) :: more, rest)
  | "CA" :: l :: rest ->
      let (more, rest) = parse_acts rest in (ACancelAll (n_of_int (int_of_string l)) :: more, rest)
  | "CF" :: l :: fl :: rest ->
      let (more, rest) = parse_acts rest in
      (ACancelFlagged (n_of_int (int_of_string l), n_of_int (int_of_string fl)) :: more, rest)
  | "D" :: l :: rest ->
      let (more, rest) = parse_acts rest in (ADestroy (n_of_int (int_of_string l)) :: more, rest)
  | _ -> ([], [])
let parse_op (l : string) : op option =
  match words l with
  | ["X"] -> Some OProcess
  | ["T"; d] -> Some (OAdvance (z_of_int (int_of_string d)))
  | ("P" | "CT" | "CA" | "CF" | "D") :: _ as toks ->
      (match parse_acts toks with ([a], _) -> Some (ODo a) | _ -> None)
  | _ -> None
let obs_str (o : obs) : string =
  let d = if o.delivered = [] then "-" else
      String.concat "," (List.map (fun ((s, l), t) -> Printf.sprintf "%d/%d/%d" (int_of_n s) (int_of_n l) (int_of_n t)) o.delivered) in
  Printf.sprintf "%s %d %s" d (int_of_nat o.npending)
    (String.concat "" (List.map (fun b -> if b then "1" else "0") o.pending_of))
let () =
  let lines = read_lines stdin in
  let rec cases ls = match ls with
    | [] -> ()
    | l :: rest ->
      (match words l with
       | "case" :: id :: _ ->
         let rec take acc ls = match ls with
           | [] -> (List.rev acc, [])
           | l :: r -> (match parse_op l with Some o -> take (o :: acc) r | None -> (List.rev acc, ls)) in
         let (ops, rest) = take [] rest in
         Printf.printf "case %s\n" id;
         List.iter (function Some o -> Printf.printf "m %s\n" (obs_str o) | None -> print_string "m hang\n") (run ops);
         List.iter (function Some o -> Printf.printf "s %s\n" (obs_str o) | None -> print_string "s hang\n") (spec_run ops);
         print_string "end\n";
         cases (match rest with "end" :: r -> r | r -> r)
       | _ -> cases rest)
  in cases lines
