(* helpers_z.ml — Z conversions (only for models that use Z) *)
let z_of_int (i : int) : z = if i = 0 then Z0 else if i > 0 then Zpos (pos_of_int i) else Zneg (pos_of_int (- i))
let int_of_z (x : z) : int = match x with Z0 -> 0 | Zpos p -> int_of_pos p | Zneg p -> - (int_of_pos p)
