(*USE_Z*)
(* C09 driver.  stdin: "case <id> <mode> ...", ops, "end".  Mode M only (mode F cases are
   free script text for the real engine: the driver prints an empty case).
   ops:  P <instr>*   start a thread   instr: p<m> | w<ms> | i<x>=<int> | s<x>=<hex> | f<x>=<bits>
                                               | n<x> | a<x>.<k>=<int> | c<x>=<y> | v<x> | e<x>.<k> | t( <instr>* )
         T <dt> | X | L (save, reset, load: prints the canonical dump of the loaded state)
   prints per op  m <prints|-> idle=<0|1> waiting=<0|1>   resp.  m L <dump>,  at the end  m fin ... *)
let esc (s : string) : string =
  let b = Buffer.create 16 in
  String.iter (fun c ->
      if (c >= 'a' && c <= 'z') || (c >= 'A' && c <= 'Z') || (c >= '0' && c <= '9') || c = '_' || c = '.' || c = ':' || c = '-'
      then Buffer.add_char b c else Buffer.add_string b (Printf.sprintf "%%%02x" (Char.code c))) s;
  Buffer.contents b
let bytes_of_hex (h : string) : n list =
  let v c = if c <= '9' then Char.code c - 48 else (Char.code c lor 32) - 87 in
  let rec go i = if i + 1 >= String.length h then [] else n_of_int (v h.[i] * 16 + v h.[i + 1]) :: go (i + 2) in
  go 0
let string_of_bytes (b : n list) : string = String.concat "" (List.map (fun x -> String.make 1 (Char.chr (int_of_n x))) b)
let hex_of_bytes (b : n list) : string = String.concat "" (List.map (fun x -> Printf.sprintf "%02x" (int_of_n x)) b)
let split2 (s : string) (c : char) : string * string =
  let i = String.index s c in (String.sub s 0 i, String.sub s (i + 1) (String.length s - i - 1))
let rest w = String.sub w 1 (String.length w - 1)
let parse_key (k : string) : key =
  if String.length k > 0 && k.[0] = '$' then KStr (bytes_of_hex (String.sub k 1 (String.length k - 1)))
  else KInt (z_of_int (int_of_string k))
let key_str (k : key) : string = match k with KInt z -> "i:" ^ string_of_int (int_of_z z) | KStr b -> "s:" ^ hex_of_bytes b
(* parse a block of tokens up to ")" ; returns (prog, remaining tokens) *)
let rec parse_block (ts : string list) : prog * string list =
  match ts with
  | [] -> (PEnd, [])
  | ")" :: r -> (PEnd, r)
  | w :: r ->
    let mk i r = let (p, r') = parse_block r in (PSeq (i, p), r') in
    (match w.[0] with
     | 'p' -> mk (IPrint (n_of_int (int_of_string (rest w)))) r
     | 'w' -> mk (IWait (n_of_int (int_of_string (rest w)))) r
     | 'i' -> let (x, v) = split2 (rest w) '=' in mk (ISet (n_of_int (int_of_string x), SInt (z_of_int (int_of_string v)))) r
     | 's' -> let (x, v) = split2 (rest w) '=' in mk (ISet (n_of_int (int_of_string x), SStr (bytes_of_hex v))) r
     | 'f' -> let (x, v) = split2 (rest w) '=' in mk (ISet (n_of_int (int_of_string x), SFloat (n_of_int (int_of_string v)))) r
     | 'n' -> mk (ISet (n_of_int (int_of_string (rest w)), SNil)) r
     | 'a' -> let (xk, v) = split2 (rest w) '=' in let (x, k) = split2 xk '.' in
       let sv = if v = "nil" then SNil else SInt (z_of_int (int_of_string v)) in
       mk (ISetElem (n_of_int (int_of_string x), parse_key k, sv)) r
     | 'c' -> let (x, y) = split2 (rest w) '=' in mk (ICopy (n_of_int (int_of_string x), n_of_int (int_of_string y))) r
     | 'A' -> let (xk, y) = split2 (rest w) '=' in let (x, k) = split2 xk '.' in
       mk (ISetElemVar (n_of_int (int_of_string x), parse_key k, n_of_int (int_of_string y))) r
     | 'g' -> let (y, xk) = split2 (rest w) '=' in let (x, k) = split2 xk '.' in
       mk (IGetElem (n_of_int (int_of_string y), n_of_int (int_of_string x), parse_key k)) r
     | 'C' -> let (x, items) = split2 (rest w) '=' in
       let item it = if it.[0] = 'v' then CVar (n_of_int (int_of_string (rest it))) else CLit (SInt (z_of_int (int_of_string (rest it)))) in
       mk (IConst (n_of_int (int_of_string x), List.map item (String.split_on_char ',' items))) r
     | 'v' -> mk (IPrintVar (n_of_int (int_of_string (rest w)))) r
     | 'e' -> let (x, k) = split2 (rest w) '.' in mk (IPrintElem (n_of_int (int_of_string x), parse_key k)) r
     | 'z' -> mk (IPrintSize (n_of_int (int_of_string (rest w)))) r
     | 't' ->
       let args = if String.length w > 2 && w.[1] = ':' then
           List.map (fun a -> n_of_int (int_of_string a)) (String.split_on_char ',' (String.sub w 2 (String.length w - 3))) else [] in
       let (q, r1) = parse_block r in mk (IThread (args, q)) r1
     | _ -> parse_block r)
let pr_str (p : pr) : string =
  match p with
  | PMark m -> string_of_int (int_of_n m)
  | PVal (SInt z) -> esc (string_of_int (int_of_z z))
  | PVal (SStr b) -> esc (string_of_bytes b)
  | PVal SNil -> "NIL"
  | PVal (SFloat _) -> "float"
  | PVal (SObj _) -> "object"
  | PArr -> esc "Type: 'array'"
  | PCon -> esc "Type: 'const array'"
let obs_str (o : obs) : string =
  let d = if o.prints = [] then "-" else String.concat "," (List.map pr_str o.prints) in
  Printf.sprintf "%s idle=%d waiting=%d" d (if o.idle then 1 else 0) (if o.waiting then 1 else 0)
let scal_str (s : scalar) : string =
  match s with
  | SNil -> "nil" | SInt z -> "i:" ^ string_of_int (int_of_z z) | SStr b -> "s:" ^ hex_of_bytes b
  | SFloat f -> "f:" ^ string_of_int (int_of_n f) | SObj i -> "o:" ^ string_of_int (int_of_n i)
let rec plen (p : prog) : int = match p with PEnd -> 0 | PSeq (_, q) -> 1 + plen q
let key_cmp (a : string) (b : string) : int =
  if String.length a <> String.length b then compare (String.length a) (String.length b) else compare a b
let dump (s : st) : string =
  let numbering : (int * int) list ref = ref [] in
  let b = Buffer.create 256 in
  Buffer.add_string b "L";
  let tname : (int * string) list ref = ref [] in
  let rec val_str (v : value) : string =
    match v with
    | VScal sc -> scal_str sc
    | VArr r | VCon r ->
      let con = (match v with VCon _ -> true | _ -> false) in
      let tag = if con then "c#" else "a#" in
      let key = int_of_n r in
      (match List.assoc_opt key !numbering with
       | Some nn -> tag ^ string_of_int nn
       | None ->
         let nn = List.length !numbering + 1 in
         numbering := (key, nn) :: !numbering;
         let o = heap_get r s.heap in
         if con then
           tag ^ string_of_int nn ^ "[" ^ String.concat "," (List.map (fun (_, x) -> val_str x) o) ^ "]"
         else begin
           let ents = List.map (fun (k, x) -> (key_str k, x)) o in
           let ents = List.sort (fun (a, _) (c, _) -> key_cmp a c) ents in
           tag ^ string_of_int nn ^ "{" ^ String.concat "," (List.map (fun (k, x) -> k ^ "=" ^ val_str x) ents) ^ "}"
         end) in
  List.iteri (fun ii chain ->
      Buffer.add_string b " I[";
      List.iteri (fun tj h ->
          let hi = int_of_n h in
          tname := (hi, Printf.sprintf "%d.%d" (ii + 1) (tj + 1)) :: !tname;
          if tj > 0 then Buffer.add_string b " ";
          (match List.find_opt (fun e -> int_of_n e.ethr.th = hi) s.elems with
           | None -> Buffer.add_string b "T(notwaiting)"
           | Some e ->
             let t = e.ethr in
             let vars = List.filter (fun (_, v) -> v <> VScal SNil) t.tenv in
             let vars = List.sort (fun (x, _) (y, _) -> compare ("x" ^ string_of_int (int_of_n x)) ("x" ^ string_of_int (int_of_n y))) vars in
             let vs = List.map (fun (x, v) -> "x" ^ string_of_int (int_of_n x) ^ "=" ^ val_str v) vars in
             Buffer.add_string b (Printf.sprintf "T(timing,rem%d,{%s})" (plen t.tcode) (String.concat "," vs)))) chain;
      Buffer.add_string b "]") s.insts;
  Buffer.add_string b (Printf.sprintf " timer(dirty=%d,time=%d)[" (if s.dirty then 1 else 0) (int_of_n s.mtime));
  List.iteri (fun i e ->
      if i > 0 then Buffer.add_string b " ";
      let nm = match List.assoc_opt (int_of_n e.ethr.th) !tname with Some x -> x | None -> "unknown" in
      Buffer.add_string b (Printf.sprintf "%s@%d" nm (int_of_n e.etime))) s.elems;
  Buffer.add_string b "]";
  Buffer.contents b
let () =
  let lines = read_lines stdin in
  let rec cases ls = match ls with
    | [] -> ()
    | l :: rest ->
      (match words l with
       | "case" :: id :: mode :: _ ->
         Printf.printf "case %s\n" id;
         let rec go (s : st option) ls = match ls with
           | [] -> []
           | "end" :: r -> r
           | l :: r ->
             if mode <> "M" then go s r else
               (match s with
                | None -> go s r
                | Some st0 ->
                  let stepo o = (match step st0 o with
                      | Some (s', ob) -> Printf.printf "m %s\n" (obs_str ob); Some s'
                      | None -> print_string "m hang\n"; None) in
                  (match words l with
                   | "P" :: ts -> let (p, _) = parse_block ts in go (stepo (OStart p)) r
                   | ["T"; d] -> go (stepo (OAdvance (n_of_int (int_of_string d)))) r
                   | ["X"] -> go (stepo OExecute) r
                   | ["L"] ->
                     (match save_reset_load st0 with
                      | Some s' -> Printf.printf "m %s\n" (dump s'); go (Some s') r
                      | None -> print_string "m L model-save-or-load-failed\n"; go None r)
                   | _ -> go s r)) in
         let rest' = go (Some (init (n_of_int 1000))) rest in
         if mode = "M" then print_string "m fin level={} game={} warnings=0 errlines=0\n";
         print_string "end\n";
         cases rest'
       | _ -> cases rest)
  in cases lines
