(* C18arr driver.  stdin: "case <id> <hmod> <u> <variant>", ops, "end".
   ops: add k | find k | at i | resize n | shrink | clear | size | rm k
   hash(k) = k mod hmod (the same HashT as in harness/C18arr.cpp); u = keys 0..u-1 are
   looked up after every op; variant selects the C++ instantiation (ignored here).
   prints per op:  m <obs> (model), d <allocated> (model, detail), s <obs> (specification)
   obs: <res> | <size> <id>:<key> ...   res: u | i<N> | k<N> | n<N> | b0 | b1
        undef (undefined behaviour / precondition violated; the case ends) | hang *)
let num s = n_of_int (int_of_string s)
let parse_op l = match words l with
  | ["add"; k] -> Some (OAdd (num k))
  | ["find"; k] -> Some (OFind (num k))
  | ["at"; i] -> Some (OAt (num i))
  | ["resize"; n] -> Some (OResize (num n))
  | ["shrink"] -> Some OShrink
  | ["clear"] -> Some OClear
  | ["size"] -> Some OSize
  | ["rm"; k] -> Some (ORemove (num k))
  | _ -> None
let res_str = function
  | RUnit -> "u"
  | RIdx i -> Printf.sprintf "i%d" (int_of_n i)
  | RKey k -> Printf.sprintf "k%d" (int_of_n k)
  | RNum n -> Printf.sprintf "n%d" (int_of_n n)
  | RBool b -> if b then "b1" else "b0"
let snap_str (i, v) = match v with
  | Some k -> Printf.sprintf "%d:%d" (int_of_n i) (int_of_n k)
  | None -> Printf.sprintf "%d:-" (int_of_n i)
let out_str = function
  | Obs (r, sz, sn) ->
    String.concat " " ([res_str r; "|"; string_of_int (int_of_n sz)] @ List.map snap_str sn)
  | OUndef -> "undef"
  | OHang -> "hang"
let () =
  let lines = read_lines stdin in
  let rec cases ls = match ls with
    | [] -> ()
    | l :: rest ->
      (match words l with
       | ["case"; id; hm; u; _] ->
         let hm = num hm and u = nat_of_int (int_of_string u) in
         let hash k = N.modulo k hm in
         let rec take acc ls = match ls with
           | [] -> (List.rev acc, [])
           | l :: r -> (match parse_op l with Some o -> take (o :: acc) r | None -> (List.rev acc, ls)) in
         let (ops, rest) = take [] rest in
         Printf.printf "case %s\n" id;
         List.iter (fun o -> Printf.printf "m %s\n" (out_str o)) (run hash u ops);
         List.iter (fun t -> Printf.printf "d %d\n" (int_of_n t)) (run_tlen hash ops);
         List.iter (fun o -> Printf.printf "s %s\n" (out_str o)) (spec_run u ops);
         print_string "end\n";
         cases (match rest with "end" :: r -> r | r -> r)
       | _ -> cases rest)
  in cases lines
