(* C15 driver.  stdin: "case <id>", ops, "end".
   ops (a target t is  n<name 0..5>  for `$name`  or  c<slot>  for `level.c<slot>`):
     S n | s n            spawn (host | script); n = 0: no targetname
     N k n | n k n | e k n   SetTargetName of object k (host | script command | script setter)
     R k | r k | d k      destroy object k (host delete | script remove | script delete)
     Q t | Z t | I t i    the value | .size | [i]
     C t T n | C t R | C t M | C t K j     command: targetname n | remove | mark | kill j
     F t [G] | F t T n | F t U j | F t Z j     field store: tag = <fresh> | targetname = n | fuse = j | zap = j
     K j n                level.c<j> = $n
   prints per op  m <obs>  (model) then  s <obs>  (specification):
     <val> w=<warnings|-> log=<ids|-> t=<a>/<b>/<c>/<d>/<"">/<never named>
   (the receivers of a tag store are printed in ascending order: the harness finds them by looking) *)
let parse_target (w : string) : target option =
  if String.length w < 2 then None
  else
    let v = int_of_string_opt (String.sub w 1 (String.length w - 1)) in
    match w.[0], v with
    | 'n', Some v -> Some (TName (n_of_int v))
    | 'c', Some v -> Some (TCap (n_of_int v))
    | _ -> None
let ni s = n_of_int (int_of_string s)
let parse_op (l : string) : (op * bool) option =
  let t w f = match parse_target w with Some t -> Some (f t, false) | None -> None in
  match words l with
  | [("S" | "s"); n] -> Some (OSpawn (ni n), false)
  | [("N" | "n" | "e"); k; n] -> Some (ORename (ni k, ni n), false)
  | [("R" | "r" | "d"); k] -> Some (ODestroy (ni k), false)
  | ["Q"; w] -> t w (fun t -> OQuery t)
  | ["Z"; w] -> t w (fun t -> OSize t)
  | ["I"; w; i] -> t w (fun t -> OIndex (t, ni i))
  | ["C"; w; "T"; n] -> t w (fun t -> OCmd (t, CName (ni n)))
  | ["C"; w; "R"] -> t w (fun t -> OCmd (t, CRemove))
  | ["C"; w; "M"] -> t w (fun t -> OCmd (t, CMark))
  | ["C"; w; "K"; j] -> t w (fun t -> OCmd (t, CKill (ni j)))
  | ["F"; w] | ["F"; w; "G"] -> (match parse_target w with Some t -> Some (OField (t, FTag), true) | None -> None)
  | ["F"; w; "T"; n] -> t w (fun t -> OField (t, FName (ni n)))
  | ["F"; w; "U"; j] -> t w (fun t -> OField (t, FFuse (ni j)))
  | ["F"; w; "Z"; j] -> t w (fun t -> OField (t, FZap (ni j)))
  | ["K"; j; n] -> Some (OCapture (ni j, ni n), false)
  | _ -> None
let nl (l : n list) : string = if l = [] then "" else ilist (List.map int_of_n l)
let val_str (v : oval) : string =
  match v with
  | ONone -> "-" | ODead -> "dead" | ONil -> "nil" | ONull -> "null"
  | OObj k -> Printf.sprintf "obj:%d" (int_of_n k)
  | OGrp l -> "grp:" ^ nl l
  | OInt n -> Printf.sprintf "int:%d" (int_of_n n)
let warn_str (w : warn) : string =
  match w with WNoTarget -> "NoTarget" | WNull -> "Null" | WCast -> "Cast" | WRange -> "Range" | WFail -> "Fail"
let obs_str (sorted : bool) (o : obs) : string =
    let lg = List.map int_of_n o.olog in
    let lg = if sorted then List.sort compare lg else lg in
    Printf.sprintf "%s w=%s log=%s t=%s" (val_str o.oval_)
      (if o.owarn = [] then "-" else String.concat "," (List.map warn_str o.owarn))
      (if lg = [] then "-" else ilist lg)
      (String.concat "/" (List.map nl o.odump))
let () =
  let lines = read_lines stdin in
  let rec cases ls = match ls with
    | [] -> ()
    | l :: rest ->
      (match words l with
       | "case" :: id :: _ ->
         let rec take acc ls = match ls with
           | [] -> (List.rev acc, [])
           | l :: r -> (match parse_op l with Some o -> take (o :: acc) r | None -> (List.rev acc, ls)) in
         let (ops, rest) = take [] rest in
         let os = List.map fst ops and fl = List.map snd ops in
         Printf.printf "case %s\n" id;
         List.iter2 (fun o f -> Printf.printf "m %s\n" (obs_str f o)) (run os) fl;
         List.iter2 (fun o f -> Printf.printf "s %s\n" (obs_str f o)) (spec_run os) fl;
         print_string "end\n";
         cases (match rest with "end" :: r -> r | r -> r)
       | _ -> cases rest)
  in cases lines
