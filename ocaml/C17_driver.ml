(* C17 driver.  stdin: "case <id> dict" | "case <id> master x<hex>:<hash>,...", ops, "end".
   ops: add x<hex> <hash> [how ..] | addd x<hex> <hash> | get x<hex> <hash> [how ..] | txt <id> | pre <n> | reset
   (the words after <hash> say how the harness hands the text to the C++ - owning / non-owning view, prefix
   of a longer buffer, slice, C string - and do not concern the model: intern / lookup of the text)
   A text is the number with the base-256 digits 01 <bytes>.  The model's hash function is the
   table text -> <hash> (hex, the value of the real Hash<str>, computed by the harness) built
   from the ops and the header; in master mode the predefined list is the extracted
   C17/Generated.v [predefined], otherwise [].
   prints: "case <id>", "m init | <size>", "d <allocated> i", per op "m <obs>" and
   "d <allocated> <class>" (model, run_trace), then "s init | <size>" and per op "s <obs>"
   (specification, spec_run_tr; "s-skipped" instead when the history is longer than 30000
   ops: the list specification is quadratic), "end".
   obs: i<id> | <size>   t x<hex> | <size>   u | <size>   undef   hang *)
let hexval c = match c with
  | '0'..'9' -> Char.code c - 48
  | 'a'..'f' -> Char.code c - 87
  | 'A'..'F' -> Char.code c - 55
  | _ -> failwith "bad hex digit"

(* the number written in hex, most significant digit first *)
let n_of_hex (s : string) : n =
  let acc = ref None in
  String.iter (fun c ->
      let v = hexval c in
      for b = 3 downto 0 do
        let bit = (v lsr b) land 1 = 1 in
        acc := (match !acc with
            | None -> if bit then Some XH else None
            | Some p -> Some (if bit then XI p else XO p))
      done) s;
  match !acc with None -> N0 | Some p -> Npos p

(* the code of the text x<hex> *)
let code_of_word (w : string) : n =
  if String.length w = 0 || w.[0] <> 'x' then failwith ("bad text " ^ w);
  n_of_hex ("01" ^ String.sub w 1 (String.length w - 1))

(* x<hex> of a code (the inverse) *)
let word_of_code (k : n) : string =
  match k with
  | N0 -> "?0"
  | Npos p ->
    let bits = Buffer.create 64 in          (* least significant first *)
    let rec go p = match p with
      | XH -> Buffer.add_char bits '1'
      | XO q -> Buffer.add_char bits '0'; go q
      | XI q -> Buffer.add_char bits '1'; go q in
    go p;
    let nb = Buffer.length bits in
    if nb mod 8 <> 1 then "?" ^ string_of_int nb
    else begin
      let nbytes = nb / 8 in
      let out = Buffer.create (2 * nbytes + 1) in
      Buffer.add_char out 'x';
      for i = nbytes - 1 downto 0 do
        let v = ref 0 in
        for b = 7 downto 0 do
          v := (!v lsl 1) lor (if Buffer.nth bits (8 * i + b) = '1' then 1 else 0)
        done;
        Buffer.add_string out (Printf.sprintf "%02x" !v)
      done;
      Buffer.contents out
    end

let res_str = function
  | RUnit -> "u"
  | RIdx i -> Printf.sprintf "i%d" (int_of_n i)
  | RKey k -> "t " ^ word_of_code k
  | RNum n -> Printf.sprintf "n%d" (int_of_n n)
  | RBool b -> if b then "b1" else "b0"
let obs_str = function
  | DObs (r, sz) -> Printf.sprintf "%s | %d" (res_str r) (int_of_n sz)
  | DUndef -> "undef"
  | DHang -> "hang"

let spec_limit = 30000

let () =
  let lines = read_lines stdin in
  let rec cases ls = match ls with
    | [] -> ()
    | l :: rest ->
      (match words l with
       | "case" :: id :: mode :: hdr ->
         let table : (string, n) Hashtbl.t = Hashtbl.create 1024 in    (* x<hex> -> hash value *)
         let codes : (string, n) Hashtbl.t = Hashtbl.create 1024 in    (* x<hex> -> code *)
         let text w h =
           if not (Hashtbl.mem codes w) then begin
             Hashtbl.replace codes w (code_of_word w);
             Hashtbl.replace table w (n_of_hex h)
           end;
           Hashtbl.find codes w in
         let master = mode = "master" in
         (if master then match hdr with
             | [pl] -> List.iter (fun item ->
                 match String.split_on_char ':' item with
                 | [w; h] -> ignore (text w h)
                 | _ -> failwith "bad predefined item") (String.split_on_char ',' pl)
             | _ -> ());
         let classes = ref [] in
         let parse_op l = match words l with
           | "add" :: w :: h :: _ | "addd" :: w :: h :: _ -> classes := "a" :: !classes; Some (OIntern (text w h))
           | "get" :: w :: h :: _ -> classes := "g" :: !classes; Some (OLookup (text w h))
           | ["txt"; i] -> classes := "t" :: !classes; Some (OText (n_of_int (int_of_string i)))
           | ["pre"; k] -> classes := "p" :: !classes; Some (OPresize (n_of_int (int_of_string k)))
           | ["reset"] -> classes := "r" :: !classes; Some OReset
           | _ -> None in
         let rec take acc ls = match ls with
           | [] -> (List.rev acc, [])
           | l :: r -> (match parse_op l with Some o -> take (o :: acc) r | None -> (List.rev acc, ls)) in
         let (ops, rest) = take [] rest in
         let classes = Array.of_list (List.rev !classes) in
         let hash k =
           match Hashtbl.find_opt table (word_of_code k) with
           | Some h -> h
           | None -> failwith "hash of a text that is not in the table" in
         let predef = if master then predefined else [] in
         Printf.printf "case %s\n" id;
         let (sz0, tl0) = start_shape hash predef in
         (match run_trace hash predef [] with
          | [] ->
            (* the construction (InitConstStrings) is defined *)
            Printf.printf "m init | %d\nd %d i\n" (int_of_n sz0) (int_of_n tl0);
            List.iteri (fun i (o, t) ->
                Printf.printf "m %s\n" (obs_str o);
                (match o with DObs _ -> Printf.printf "d %d %s\n" (int_of_n t) classes.(i) | _ -> ()))
              (run_trace hash predef ops)
          | o :: _ -> Printf.printf "m %s\n" (obs_str (fst o)));
         if List.length ops > spec_limit then print_string "s-skipped\n"
         else begin
           (match s_start predef with
            | Some l0 ->
              Printf.printf "s init | %d\n" (List.length l0);
              List.iter (fun o -> Printf.printf "s %s\n" (obs_str o)) (spec_run_tr predef ops)
            | None -> print_string "s undef\n")
         end;
         print_string "end\n";
         cases (match rest with "end" :: r -> r | r -> r)
       | _ -> cases rest)
  in cases lines
