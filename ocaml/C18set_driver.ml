(* C18set driver.  stdin: "case <id> <full>", ops, "end".
   ops (con::set): A k v | I k v | F k | R k | C | Z n | H | S | E
   ops (con::map): MI k v | MF k | MR k | MS | MC | MZ n | ME
   prints per op:  m <obs> | <detail>   (model)   and   s <obs>   (specification)
   obs:    r=<-|null|v<value>|true|false|#<n>> n=<size> e=<-|[]|k:v,k:v,...>  (sorted)
   detail: a=<allocated> d=<defaultEntry non-null> b=<-|bucket[k,k..];...>  (set ops only; "-" for map ops)
   The hash function is the one of the harness: h(k) = (k mod 4) * 119 + k / 4. *)
let hash (k : n) : n = let i = int_of_n k in n_of_int ((i mod 4) * 119 + i / 4)
let num s = n_of_int (int_of_string s)
let parse_op l = match words l with
  | ["A"; k; v] -> Some (OSet (SAdd (num k, num v)))
  | ["I"; k; v] -> Some (OSet (SAddInit (num k, num v)))
  | ["F"; k] -> Some (OSet (SFind (num k)))
  | ["R"; k] -> Some (OSet (SRemove (num k)))
  | ["C"] -> Some (OSet SClear)
  | ["Z"; n] -> Some (OSet (SResize (num n)))
  | ["H"] -> Some (OSet SShrink)
  | ["S"] -> Some (OSet SSize)
  | ["E"] -> Some (OSet SEnum)
  | ["MI"; k; v] -> Some (OMIdx (num k, num v))
  | ["MF"; k] -> Some (OMFind (num k))
  | ["MR"; k] -> Some (OMRemove (num k))
  | ["MS"] -> Some OMSize
  | ["MC"] -> Some OMClear
  | ["MZ"; n] -> Some (OMResize (num n))
  | ["ME"] -> Some OMEnum
  | _ -> None
let is_map = function OSet _ -> false | _ -> true
let ret_str = function
  | RNone -> "-"
  | RVal None -> "null"
  | RVal (Some v) -> Printf.sprintf "v%d" (int_of_n v)
  | RBool b -> if b then "true" else "false"
  | RNum x -> Printf.sprintf "#%d" (int_of_n x)
let enum_str = function
  | None -> "-"
  | Some [] -> "[]"
  | Some l -> String.concat "," (List.map (fun (k, v) -> Printf.sprintf "%d:%d" (int_of_n k) (int_of_n v)) l)
let obs_str o = Printf.sprintf "r=%s n=%d e=%s" (ret_str o.oret) (int_of_n o.osize) (enum_str o.oenum)
let detail_str d =
  Printf.sprintf "a=%d d=%d b=%s" (int_of_n d.dalloc) (if d.ddflt then 1 else 0)
    (match d.dlayout with
     | None -> "-"
     | Some [] -> "[]"
     | Some l -> String.concat ";" (List.map (fun (i, ks) -> Printf.sprintf "%d[%s]" (int_of_n i) (ilist (List.map int_of_n ks))) l))
let () =
  let lines = read_lines stdin in
  let rec cases ls = match ls with
    | [] -> ()
    | l :: rest ->
      (match words l with
       | ["case"; id; full] ->
         let full = (full = "1") in
         let rec take acc ls = match ls with
           | [] -> (List.rev acc, [])
           | l :: r -> (match parse_op l with Some o -> take (o :: acc) r | None -> (List.rev acc, ls)) in
         let (ops, rest) = take [] rest in
         Printf.printf "case %s\n" id;
         let ms = run hash full ops and ds = run_detail hash full ops in
         let rec pr ms ds ops = match ms, ops with
           | [], _ | _, [] -> ()
           | Some o :: ms', op :: ops' ->
             let (d, ds') = match ds with d :: ds' -> (Some d, ds') | [] -> (None, []) in
             Printf.printf "m %s | %s\n" (obs_str o)
               (match d with Some d when not (is_map op) -> detail_str d | _ -> "-");
             pr ms' ds' ops'
           | None :: _, _ -> print_string "m fail\n" in
         pr ms ds ops;
         List.iter (fun o -> Printf.printf "s %s\n" (obs_str o)) (spec_run full ops);
         print_string "end\n";
         cases (match rest with "end" :: r -> r | r -> r)
       | _ -> cases rest)
  in cases lines
