(* helpers.ml — conversions between OCaml ints/strings and the extracted Coq numbers.
   Concatenated in front of every driver; [Model] is the extracted module. *)
open Model

let rec pos_of_int (i : int) : positive =
  if i <= 1 then XH
  else if i land 1 = 0 then XO (pos_of_int (i lsr 1))
  else XI (pos_of_int (i lsr 1))
let rec int_of_pos (p : positive) : int =
  match p with XH -> 1 | XO q -> 2 * int_of_pos q | XI q -> 2 * int_of_pos q + 1
let n_of_int (i : int) : n = if i <= 0 then N0 else Npos (pos_of_int i)
let int_of_n (x : n) : int = match x with N0 -> 0 | Npos p -> int_of_pos p
let rec nat_of_int (i : int) : nat = if i <= 0 then O else S (nat_of_int (i - 1))
let int_of_nat (x : nat) : int =
  let rec go acc = function O -> acc | S m -> go (acc + 1) m in go 0 x
let words (s : string) : string list =
  List.filter (fun w -> w <> "") (String.split_on_char ' ' (String.trim s))
let read_lines (ic : in_channel) : string list =
  let rec go acc = match input_line ic with
    | l -> go (l :: acc)
    | exception End_of_file -> List.rev acc in
  go []
let ilist (l : int list) : string = String.concat "," (List.map string_of_int l)
