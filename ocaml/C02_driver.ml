(* C02 driver.  stdin, per case:
     case <id>
     prog <len> <stack> <nstrings> <nevnames> <nevents>
     code <hex|->
     entries <off,...>
     switch <address> <off,...|->        (any number)
     trace <off>:<idx>:<marked> ...      (optional: executed instructions, idx -1 = top outside the stack)
     ends <idx> ...                      (optional: stack index at every VM end)
     end
   prints
     case <id>
     v ok | v reject <stuck|conflict|fuel|check> pc=<off> <detail>
     a annotated=<n> maxht=<h> ops=<opcode,...>          (opcodes at the annotated offsets)
     d ok steps=<n> | d bad <what>                       (only when a trace was given)
     end
   `tablecheck` as first argument: prints the opcodes whose table entry differs from the model. *)
let ints_of (s : string) : int list =
  if s = "-" || s = "" then [] else List.map int_of_string (String.split_on_char ',' s)
let hex_val c = match c with
  | '0'..'9' -> Char.code c - 48 | 'a'..'f' -> Char.code c - 87 | 'A'..'F' -> Char.code c - 55 | _ -> 0
let bytes_of_hex (s : string) : int list =
  if s = "-" then [] else
    List.init (String.length s / 2) (fun i -> 16 * hex_val s.[2*i] + hex_val s.[2*i+1])
let st_str (s : astate) : string =
  Printf.sprintf "h%d%s" (int_of_n s.ht) (match s.mk with Some m -> Printf.sprintf "m%d" (int_of_n m) | None -> "")

type case = { mutable id : string; mutable hdr : int list; mutable code : int list; mutable entries : int list;
              mutable switches : (int * int list) list; mutable trace : (int * int * int) list option;
              mutable ends : int list }

let run_case (c : case) =
  Printf.printf "case %s\n" c.id;
  (match c.hdr with
   | [len; stack; nstr; nevn; nev] ->
     let p = { pcode = code_of_list (List.map n_of_int c.code); plen = n_of_int len; pstack = n_of_int stack;
               pnstr = n_of_int nstr; pnevname = n_of_int nevn; pnev = n_of_int nev;
               pswitch = List.map (fun (a, l) -> (n_of_int a, List.map n_of_int l)) (List.rev c.switches);
               pentries = List.map n_of_int c.entries } in
     let nent = List.length c.entries in
     let fuel = 4 * len + nent * (len / 5 + 2) + 200 in
     let (h, verdict) = infer (nat_of_int fuel) p in
     let accepted =
       (match verdict with
        | VOk ->
          if check p h then (print_string "v ok\n"; true)
          else (Printf.printf "v reject check pc=%d -\n" (match first_failure p h with Some o -> int_of_n o | None -> -1); false)
        | VConflict (pc, have, want) ->
          Printf.printf "v reject conflict pc=%d have=%s want=%s\n" (int_of_n pc) (st_str have) (st_str want); false
        | VStuck (pc, s) ->
          Printf.printf "v reject stuck pc=%d state=%s opcode=%d\n" (int_of_n pc) (st_str s)
            (match List.nth_opt c.code (int_of_n pc) with Some b -> b | None -> -1); false
        | VFuel -> print_string "v reject fuel pc=-1 -\n"; false) in
     (* statistics over the annotated offsets *)
     let n = ref 0 and mx = ref 0 and ops = Hashtbl.create 16 in
     List.iteri (fun off b ->
         match get h (n_of_int off) with
         | Some s -> incr n; mx := max !mx (int_of_n s.ht); Hashtbl.replace ops b ()
         | None -> ()) c.code;
     let opl = List.sort compare (Hashtbl.fold (fun k () acc -> k :: acc) ops []) in
     Printf.printf "a annotated=%d maxht=%d ops=%s\n" !n !mx (if opl = [] then "-" else ilist opl);
     (match c.trace with
      | None -> ()
      | Some tr ->
        if not accepted then print_string "d skipped\n"
        else begin
          let bad = ref [] in
          List.iter (fun (off, idx, marked) ->
              match get h (n_of_int off) with
              | None -> bad := Printf.sprintf "off=%d:idx=%d:notannotated" off idx :: !bad
              | Some s ->
                let hh = int_of_n s.ht in
                let ok = (match s.mk with
                    | None -> marked = 0 && idx = hh
                    | Some _ -> marked = 1 && (idx = hh || idx = -1)) in
                if not ok then bad := Printf.sprintf "off=%d:idx=%d:marked=%d:annotated=%s" off idx marked (st_str s) :: !bad) tr;
          List.iter (fun e -> if e <> 0 then bad := Printf.sprintf "end:idx=%d" e :: !bad) c.ends;
          if !bad = [] then Printf.printf "d ok steps=%d ends=%d\n" (List.length tr) (List.length c.ends)
          else Printf.printf "d bad %s\n" (String.concat " " (List.rev !bad))
        end)
   | _ -> print_string "v reject input pc=-1 bad-prog-line\n");
  print_string "end\n"

let tablecheck () =
  List.iter (fun e ->
      let (op, ((len, eff), ext)) = e in
      if not (entry_matches e) then
        Printf.printf "mismatch %d allowed=%d\n" (int_of_n op) (if List.exists (fun x -> int_of_n x = int_of_n op) table_exceptions then 1 else 0))
    optable;
  Printf.printf "control %s\n" (ilist (List.map int_of_n control_events));
  print_string "tablecheck done\n"

let () =
  if Array.length Sys.argv > 1 && Sys.argv.(1) = "tablecheck" then tablecheck ()
  else begin
    let cur = ref None in
    let flush () = (match !cur with Some c -> run_case c | None -> ()); cur := None in
    List.iter (fun l ->
        match words l with
        | "case" :: id :: _ -> flush (); cur := Some { id; hdr = []; code = []; entries = []; switches = []; trace = None; ends = [] }
        | ["end"] -> flush ()
        | "prog" :: r -> (match !cur with Some c -> c.hdr <- List.map int_of_string r | None -> ())
        | ["code"; h] -> (match !cur with Some c -> c.code <- bytes_of_hex h | None -> ())
        | ["entries"; e] -> (match !cur with Some c -> c.entries <- ints_of e | None -> ())
        | ["switch"; a; l] -> (match !cur with Some c -> c.switches <- (int_of_string a, ints_of l) :: c.switches | None -> ())
        | "trace" :: r -> (match !cur with
            | Some c -> c.trace <- Some (List.map (fun t -> match String.split_on_char ':' t with
                | [a; b; m] -> (int_of_string a, int_of_string b, int_of_string m) | _ -> (-1, 0, 0)) r)
            | None -> ())
        | "ends" :: r -> (match !cur with Some c -> c.ends <- List.map int_of_string r | None -> ())
        | _ -> ()) (read_lines stdin);
    flush ()
  end
