(* C12 driver.  stdin: "case <id> <no> <nr>", ops, "end".
   ops: NO s | DO s | NR r <src> | AS r <src> | CL r | DR r ; src: N | O s | R r
   prints per op:  m <obs>  (model)  and  s <obs>  (specification)
   obs: one word per reference slot: d | n | <objslot>:<islast> | x:<islast> (dangling) *)
let parse_src = function
  | ["N"] -> SNull
  | ["O"; s] -> SObj (n_of_int (int_of_string s))
  | ["R"; r] -> SRef (n_of_int (int_of_string r))
  | _ -> SNull
let parse_op l = match words l with
  | ["NO"; s] -> Some (ONewObj (n_of_int (int_of_string s)))
  | ["DO"; s] -> Some (ODelObj (n_of_int (int_of_string s)))
  | "NR" :: r :: src -> Some (ONewRef (n_of_int (int_of_string r), parse_src src))
  | "AS" :: r :: src -> Some (OAssign (n_of_int (int_of_string r), parse_src src))
  | ["CL"; r] -> Some (OClear (n_of_int (int_of_string r)))
  | ["DR"; r] -> Some (ODelRef (n_of_int (int_of_string r)))
  | _ -> None
let robs_str = function
  | RDead -> "d" | RNull -> "n"
  | RTo (Some s, l) -> Printf.sprintf "%d:%d" (int_of_n s) (if l then 1 else 0)
  | RTo (None, l) -> Printf.sprintf "x:%d" (if l then 1 else 0)
let obs_str l = String.concat " " (List.map robs_str l)
let () =
  let lines = read_lines stdin in
  let rec cases ls = match ls with
    | [] -> ()
    | l :: rest ->
      (match words l with
       | ["case"; id; no; nr] ->
         let no = nat_of_int (int_of_string no) and nr = nat_of_int (int_of_string nr) in
         let rec take acc ls = match ls with
           | [] -> (List.rev acc, [])
           | l :: r -> (match parse_op l with Some o -> take (o :: acc) r | None -> (List.rev acc, ls)) in
         let (ops, rest) = take [] rest in
         Printf.printf "case %s\n" id;
         List.iter (function Some o -> Printf.printf "m %s\n" (obs_str o) | None -> print_string "m hang\n") (run no nr ops);
         List.iter (fun o -> Printf.printf "s %s\n" (obs_str o)) (spec_run no nr ops);
         print_string "end\n";
         cases (match rest with "end" :: r -> r | r -> r)
       | _ -> cases rest)
  in cases lines
