(* C14 driver.  stdin: "case <id> <prot> <warn> <err> <dbg> <limit> <nest> <step> [<x>]", ops, "end".
   (x bit 1: the Output stream is not attached, println markers are not observable: printed as out=~;
    x bit 0: a Verbose stream is attached, no effect on the observation)
   ops:  S <stmt>*   host ExecuteThread of a fresh script; stmt:
                     k<n> n plain instructions | p<m> println m | w<ms> wait | f script error
                     (warning) | a script abort | c( <stmt>* ) thread call | l<kind> endless
                     loop (the kind only selects the script text) | r endless mutual thread
                     recursion (expanded to a call chain deeper than the nesting limit)
         T <dt>      the host's clock moves
         X           ScriptContext::Execute()
         R           ScriptMaster::Reset()
   prints per op  m <outcome> dt=.. curnull=.. depth0=.. out=.. waiting=.. w=.. e=.. d=.. n=..
   (model) then  s ...  (specification); "hang" when the host call does not return *)
let num (w : string) : int = int_of_string (String.sub w 1 (String.length w - 1))

let rec chain (n : int) : prog = if n <= 0 then PEnd else PCall (chain (n - 1), PEnd)

(* parse a statement sequence up to ")" or the end; returns the program and the rest *)
let rec parse_seq (depthlimit : int) (ws : string list) : prog * string list =
  match ws with
  | [] -> (PEnd, [])
  | ")" :: rest -> (PEnd, rest)
  | "c(" :: rest ->
    let (q, rest1) = parse_seq depthlimit rest in
    let (k, rest2) = parse_seq depthlimit rest1 in
    (PCall (q, k), rest2)
  | "r" :: rest ->
    let (k, rest2) = parse_seq depthlimit rest in
    (PCall (chain depthlimit, k), rest2)
  | "f" :: rest -> let (k, r) = parse_seq depthlimit rest in (PFault k, r)
  | "a" :: rest -> let (k, r) = parse_seq depthlimit rest in (PAbort k, r)
  | w :: rest ->
    let (k, r) = parse_seq depthlimit rest in
    (match w.[0] with
     | 'k' -> (PWork (nat_of_int (num w), k), r)
     | 'p' -> (PPrint (n_of_int (num w), k), r)
     | 'w' -> (PWait (n_of_int (num w), k), r)
     | 'l' -> (PLoop, r)
     | _ -> failwith ("bad statement " ^ w))

let parse_op (dl : int) (l : string) : op option =
  match words l with
  | "S" :: stmts -> Some (OStart (fst (parse_seq dl stmts)))
  | ["T"; d] -> Some (OAdvance (n_of_int (int_of_string d)))
  | ["X"] -> Some OFrame
  | ["R"] -> Some OReset
  | _ -> None

let oc_str = function
  | Returned -> "returned" | Overflow -> "overflow" | MaxDepth -> "maxdepth"
  | Aborted -> "abort" | Crash -> "crash"

let b2i b = if b then 1 else 0

let out_hidden = ref false
let obs_str (o : obs) : string =
  let d = if !out_hidden then "~" else if o.prints = [] then "-" else String.concat "," (List.map (fun m -> string_of_int (int_of_n m)) o.prints) in
  Printf.sprintf "%s dt=%d curnull=%d depth0=%d out=%s waiting=%d w=%d e=%d d=%d n=%d"
    (oc_str o.oc) (int_of_n o.dt) (b2i o.curnull) (b2i o.depth0) d (b2i o.waiting)
    (int_of_n o.lw) (int_of_n o.le) (int_of_n o.ld) (int_of_n o.ni)

let () =
  let lines = read_lines stdin in
  let rec cases ls = match ls with
    | [] -> ()
    | l :: rest ->
      (match words l with
       | "case" :: id :: pr :: wa :: er :: db :: li :: ne :: st :: xs ->
         let i = int_of_string in
         out_hidden := (match xs with x :: _ -> (i x) land 2 <> 0 | [] -> false);
         let c = { prot = i pr <> 0; warn = i wa <> 0; err = i er <> 0; dbg = i db <> 0;
                   limit = n_of_int (i li); nest = n_of_int (i ne); kstep = n_of_int (i st) } in
         let dl = i ne + 3 in
         let rec take acc ls = match ls with
           | [] -> (List.rev acc, [])
           | l :: r -> (match parse_op dl l with Some o -> take (o :: acc) r | None -> (List.rev acc, ls)) in
         let (ops, rest) = take [] rest in
         Printf.printf "case %s\n" id;
         List.iter (function Some o -> Printf.printf "m %s\n" (obs_str o) | None -> print_string "m hang\n") (run c ops);
         List.iter (function Some o -> Printf.printf "s %s\n" (obs_str o) | None -> print_string "s hang\n") (spec_run c ops);
         print_string "end\n";
         cases (match rest with "end" :: r -> r | r -> r)
       | _ -> cases rest)
  in cases lines
