(* C01 driver.  stdin: "case <id>", ops, "end".
   table ops (one history per case, in order):
     S <name> <src> | C <name> <0|1> <src> | F <name> <0|1> | R <name> | T <name> | E <name> | Z (Reset)
     <name> = a number; <src> = A<tag> (accepted, prints G<tag>) | J<kind> (rejected with class <kind>)
   skeleton ops (independent): K <tokens>   tokens: W( D( S( T( | I( ) b c f
   prints per op  m <obs>  (model), then  s <obs>  per op (specification), in the harness's text *)
let parse_src (w : string) : src =
  let v = n_of_int (int_of_string (String.sub w 1 (String.length w - 1))) in
  if w.[0] = 'A' then Accept v else Reject v
let bool_of (w : string) = w <> "0"
type line = Tab of string * op | Skel of stmts | Bad
(* skeleton parser *)
let rec p_list (tk : string list) : stmts * string list =
  match tk with
  | [] -> (SNil, [])
  | (")" | "|") :: _ -> (SNil, tk)
  | _ ->
    let (x, rest) = p_stmt tk in
    let (r, rest') = p_list rest in
    (SCons (x, r), rest')
and p_stmt (tk : string list) : stmt * string list =
  let close rest = match rest with ")" :: r -> r | r -> r in
  match tk with
  | "b" :: r -> (SBreak, r)
  | "c" :: r -> (SContinue, r)
  | "f" :: r -> (SFill, r)
  | "W(" :: r -> let (b, r') = p_list r in (SWhile b, close r')
  | "D(" :: r -> let (b, r') = p_list r in (SDo b, close r')
  | "S(" :: r -> let (b, r') = p_list r in (SSwitch b, close r')
  | "I(" :: r -> let (b, r') = p_list r in (SIf b, close r')
  | "T(" :: r ->
    let (t, r') = p_list r in
    let r'' = (match r' with "|" :: q -> q | q -> q) in
    let (c, r3) = p_list r'' in
    (STry (t, c), close r3)
  | _ :: r -> (SFill, r)
  | [] -> (SFill, [])
(* kinds of the numbered jumps in emission order: b, c, s (switch exit) *)
let rec kinds_list (b : stmts) (acc : char list) : char list =
  match b with SNil -> acc | SCons (x, r) -> kinds_list r (kinds_stmt x acc)
and kinds_stmt (x : stmt) (acc : char list) : char list =
  match x with
  | SBreak -> 'b' :: acc | SContinue -> 'c' :: acc | SFill -> acc
  | SWhile b | SDo b | SIf b -> kinds_list b acc
  | SSwitch b -> kinds_list b ('s' :: acc)
  | STry (t, c) -> kinds_list c (kinds_list t acc)
let parse_line (l : string) : line =
  match words l with
  | ["S"; n; s] -> Tab ("S", OSetFile (n_of_int (int_of_string n), parse_src s))
  | ["C"; n; r; s] -> Tab ("C", OCompile (n_of_int (int_of_string n), bool_of r, parse_src s))
  | ["F"; n; r] -> Tab ("F", ORequest (n_of_int (int_of_string n), bool_of r))
  | ["R"; n] -> Tab ("R", ORun (n_of_int (int_of_string n)))
  | ["T"; n] -> Tab ("T", ORun (n_of_int (int_of_string n)))
  | ["E"; n] -> Tab ("E", OExec (n_of_int (int_of_string n)))
  | ["Z"] -> Tab ("Z", OReset)
  | "K" :: tk -> Skel (fst (p_list tk))
  | _ -> Bad
let obs_str (c : string) (o : obs) : string =
  let body = match o with
    | BDone -> ""
    | BOk _ -> " ok"
    | BRejected k -> Printf.sprintf " rej %d" (int_of_n k)
    | BNotLoaded -> " notloaded"
    | BNoFile -> " nofile"
    | BAbsent -> " absent"
    | BFailed -> " failed"
    | BRan t -> if c = "T" then " loaded" else Printf.sprintf " run G%d" (int_of_n t) in
  c ^ body
let err_str (e : err) : string =
  match e with
  | EIllegalBreak -> "compile:IllegalBreak"
  | EIllegalContinue -> "compile:IllegalContinue"
  | EOverflow WB -> "compile:BreakJumpLocOverflow"
  | EOverflow WC -> "compile:ContinueJumpLocOverflow"
  | EStackOverflow -> "compile:StackOverflow"
let own_str (k : char) (o : n option) (cnt : int) : string =
  let base = match o with None -> Printf.sprintf "%c?" k | Some v -> Printf.sprintf "%c%d" k (int_of_n v) in
  if cnt = 1 then base else Printf.sprintf "%sx%d" base cnt
let skel_model (p : stmts) : string =
  match kcompile p with
  | KErr e -> "K " ^ err_str e
  | KOk l ->
    let ks = List.rev (kinds_list p []) in
    let rec go ks l = match ks, l with
      | k :: kr, (o, c) :: lr -> if k = 's' then go kr lr else own_str k o (int_of_n c) :: go kr lr
      | _, _ -> [] in
    String.concat " " ("K ok" :: go ks l)
let skel_spec (p : stmts) : string =
  let ks = List.rev (kinds_list p []) in
  let rec go ks l = match ks, l with
    | k :: kr, o :: lr -> if k = 's' then go kr lr else own_str k o 1 :: go kr lr
    | _, _ -> [] in
  String.concat " " ("K ok" :: go ks (kspec p))
let () =
  let lines = read_lines stdin in
  let rec cases ls = match ls with
    | [] -> ()
    | l :: rest ->
      (match words l with
       | "case" :: id :: _ ->
         let rec take acc ls = match ls with
           | [] -> (List.rev acc, [])
           | "end" :: _ -> (List.rev acc, ls)
           | l :: r -> take (parse_line l :: acc) r in
         let (items, rest) = take [] rest in
         Printf.printf "case %s\n" id;
         let tops = List.filter_map (function Tab (_, o) -> Some o | _ -> None) items in
         let emit pfx (obs : obs list) skel =
           let rec go items obs = match items with
             | [] -> ()
             | Tab (c, _) :: r ->
               (match obs with
                | o :: orest -> Printf.printf "%s %s\n" pfx (obs_str c o); go r orest
                | [] -> Printf.printf "%s ?\n" pfx; go r [])
             | Skel p :: r -> Printf.printf "%s %s\n" pfx (skel p); go r obs
             | Bad :: r -> Printf.printf "%s ? unknown op\n" pfx; go r obs in
           go items obs in
         emit "m" (run tops) skel_model;
         emit "s" (spec_run tops) skel_spec;
         print_string "end\n";
         cases (match rest with "end" :: r -> r | r -> r)
       | _ -> cases rest)
  in cases lines
