(* C04 driver.  stdin: "case <id> warn=<0|1> dbg=<0|1>", one abstract statement per line (the
   token grammar of harness/C04.cpp), "end".  Prints per statement
     m <k> done|cut|skip|? w=<classes|-> n=<lines> fr=<frame>     (model: the stack machine)
     s <k> ...                                                     (specification)
   A raw statement (R ...) is outside the model: "?" from there on. *)
exception Bad of string

let rep_of_string = function
  | "nil" -> Rnil | "null" -> Rnull | "i0" -> Ri0 | "i1" -> Ri1 | "i2" -> Ri2 | "i3" -> Ri3
  | "im1" -> Rim1 | "i64" -> Ri64 | "ibig" -> Ribig | "imin" -> Rimin
  | "f0" -> Rf0 | "f1" -> Rf1 | "f1h" -> Rf1h | "fm2h" -> Rfm2h
  | "se" -> Rse | "sa" -> Rsa | "sabc" -> Rsabc | "s12" -> Rs12 | "svec" -> Rsvec | "st1" -> Rst1
  | "sg" -> Rsg | "sno" -> Rsno | "ssub" -> Rssub | "da" -> Rda | "dabc" -> Rdabc | "ch" -> Rch
  | "v0" -> Rv0 | "v123" -> Rv123
  | "lth" -> Rlth | "lent" -> Rlent | "ldead" -> Rldead | "lpl" -> Rlpl | "lgame" -> Rlgame
  | "llevel" -> Rllevel | "lparm" -> Rlparm | "lgroup" -> Rlgroup | "lself" -> Rlself
  | "arr" -> Rarr | "earr" -> Rearr | "ca123" -> Rca123 | "cal" -> Rcal | "grp" -> Rgrp | "ptr" -> Rptr
  | s -> raise (Bad ("rep " ^ s))

let binop_of_string = function
  | "add" -> BAdd | "sub" -> BSub | "mul" -> BMul | "div" -> BDiv | "mod" -> BMod | "and" -> BAnd
  | "or" -> BOr | "xor" -> BXor | "shl" -> BShl | "shr" -> BShr | "eq" -> BEq | "ne" -> BNe
  | "lt" -> BLt | "gt" -> BGt | "le" -> BLe | "ge" -> BGe
  | s -> raise (Bad ("binop " ^ s))

let unop_of_string = function
  | "neg" -> UNeg | "compl" -> UCompl | "not" -> UNot | "size" -> USize | "tgt" -> UTgt
  | s -> raise (Bad ("unop " ^ s))

let cast_of_string = function
  | "int" -> CInt | "float" -> CFloat | "string" -> CString | "bool" -> CBool | "abs" -> CAbs
  | "veclen" -> CVecLen | "typeof" -> CTypeof | "isdefined" -> CIsDefined | "isarray" -> CIsArray
  | s -> raise (Bad ("cast " ^ s))

(* parses one expression from the token list; returns (expr, rest) *)
let rec expr (ts : string list) : expr * string list =
  match ts with
  | [] -> raise (Bad "eof")
  | "(" :: f :: rest ->
    let (e, rest) =
      (match f with
       | "b" -> (match rest with
           | o :: rest -> let (a, rest) = expr rest in let (b, rest) = expr rest in (EBin (binop_of_string o, a, b), rest)
           | [] -> raise (Bad "b"))
       | "l" -> (match rest with
           | o :: rest -> let (a, rest) = expr rest in let (b, rest) = expr rest in (ELogic ((o = "and"), a, b), rest)
           | [] -> raise (Bad "l"))
       | "u" -> (match rest with
           | o :: rest -> let (a, rest) = expr rest in (EUn (unop_of_string o, a), rest)
           | [] -> raise (Bad "u"))
       | "x" -> let (a, rest) = expr rest in let (i, rest) = expr rest in (EIdx (a, i), rest)
       | "f" -> let (a, rest) = expr rest in (EFld a, rest)
       | "v" -> let (a, rest) = expr rest in let (b, rest) = expr rest in let (c, rest) = expr rest in (EVec (a, b, c), rest)
       | "a" -> let (a, rest) = expr rest in
         let rec more acc rest = (match rest with
             | ")" :: _ -> (List.rev acc, rest)
             | _ -> let (e, rest) = expr rest in more (e :: acc) rest) in
         let (es, rest) = more [] rest in
         if es = [] then raise (Bad "a") else (ECArr (a, es), rest)
       | "c" -> (match rest with
           | c :: rest -> let (a, rest) = expr rest in (ECall (cast_of_string c, a), rest)
           | [] -> raise (Bad "c"))
       | s -> raise (Bad ("form " ^ s))) in
    (match rest with ")" :: rest -> (e, rest) | _ -> raise (Bad "missing )"))
  | w :: rest -> (ELeaf (rep_of_string w), rest)

let opt_expr ts = match ts with [] -> (None, []) | _ -> let (e, r) = expr ts in (Some e, r)

let stmt_of_line (l : string) : stmt option =
  match words l with
  | "R" :: _ -> None
  | "P" :: ts -> (match expr ts with (e, []) -> Some (SPrint e) | _ -> raise (Bad l))
  | "A" :: ts -> (match expr ts with (e, []) -> Some (SAssign e) | _ -> raise (Bad l))
  | "IF" :: ts -> (match expr ts with (e, []) -> Some (SIf e) | _ -> raise (Bad l))
  | "WI" :: b :: ts -> let (i, r) = expr ts in (match expr r with (v, []) -> Some (SSetIdx (rep_of_string b, i, v)) | _ -> raise (Bad l))
  | "WF" :: ts -> let (rc, r) = expr ts in (match expr r with (v, []) -> Some (SSetFld (rc, v)) | _ -> raise (Bad l))
  | ["INC"; b] -> Some (SInc (false, rep_of_string b))
  | ["DEC"; b] -> Some (SInc (true, rep_of_string b))
  | "M" :: ts ->
    let (rc, r) = expr ts in
    (match r with
     | c :: r ->
       let c = (match c with "notify" -> MNotify | "thread" -> MThread | "waitthread" -> MWaitThread | "delete" -> MDelete | s -> raise (Bad s)) in
       (match opt_expr r with (a, []) -> Some (SMethod (rc, c, a)) | _ -> raise (Bad l))
     | [] -> raise (Bad l))
  | "C" :: c :: r ->
    let c = (match c with "goto" -> CGoto | "thread" -> CThread | "waitthread" -> CWaitThread | "wait" -> CWait | "end" -> CEnd
                       | "killd" | "killr" | "killi" | "killdv" | "killrv" | "killiv" -> CKill | s -> raise (Bad s)) in
    (match opt_expr r with (a, []) -> Some (SCmd (c, a)) | _ -> raise (Bad l))
  | _ -> raise (Bad l)

let wname = function
  | WIncompat -> "Incompat" | WDivZero -> "DivZero" | WCast -> "Cast" | WIndex -> "Index" | WInvType -> "InvType"
  | WNullField -> "NullField" | WNilCmd -> "NilCmd" | WNullCmd -> "NullCmd" | WLabel -> "Label" | WNoTarget -> "NoTarget"
  | WMultiTarget -> "MultiTarget" | WBadHash -> "BadHash" | WBadLabel -> "BadLabel" | WFile -> "File" | WScript -> "Script"

let print_trace (tag : string) (warn : bool) (tr : tobs list) =
  let frame = ref 0 in
  List.iteri (fun k o ->
      let show st (o : sobs) fr =
        let w = if not warn || o.o_warn = [] then "-" else String.concat "," (List.map wname o.o_warn) in
        Printf.printf "%s %d %s w=%s n=%d fr=%d\n" tag k st w (int_of_nat o.o_lines) fr in
      match o with
      | ODone o -> (match o.o_flow with FSuspend -> incr frame | _ -> ()); show "done" o !frame
      | OCut o -> show "cut" o (-1)
      | OSkip -> Printf.printf "%s %d skip w=- n=0 fr=-1\n" tag k
      | OUnknown -> Printf.printf "%s %d ?\n" tag k) tr

let () =
  let lines = read_lines stdin in
  let rec cases ls = match ls with
    | [] -> ()
    | l :: rest ->
      (match words l with
       | "case" :: id :: hdr ->
         let warn = not (List.mem "warn=0" hdr) and dbg = not (List.mem "dbg=0" hdr) in
         let rec take acc ls = match ls with
           | [] -> (List.rev acc, [])
           | "end" :: r -> (List.rev acc, r)
           | l :: r -> take (l :: acc) r in
         let (ops, rest) = take [] rest in
         Printf.printf "case %s\n" id;
         (try
            (* statements after the first raw statement are not predicted *)
            let rec split acc ls = match ls with
              | [] -> (List.rev acc, 0)
              | l :: r -> (match stmt_of_line l with Some s -> split (s :: acc) r | None -> (List.rev acc, 1 + List.length r)) in
            let (stmts, unknown) = split [] ops in
            let pad tag n k0 = for k = k0 to k0 + n - 1 do Printf.printf "%s %d ?\n" tag k done in
            print_trace "m" warn (run dbg stmts); pad "m" unknown (List.length stmts);
            print_trace "s" warn (spec_run dbg stmts); pad "s" unknown (List.length stmts)
          with Bad s -> Printf.printf "bad %s\n" s);
         print_string "end\n";
         cases rest
       | _ -> cases rest)
  in cases lines
