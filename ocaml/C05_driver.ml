(* C05 driver.  stdin: "case <id>", ops, "end".
   ops:  C <lbl> <np> <prog> <args> | Y r | V r | M r | D r | S r1 r2 | U r1 r2 | T dt | X | Z
         prog = levels separated by '/', a level = steps and a final statement separated by ',':
                w<d> p<d> P<w<n>|p>(:<d><W<e>|U|D>)* (park with a helper program) t (start the next level here)  then  e<val> r<j> g<k> L x o k<d> q<d> h S K<n> N
         args = value tokens separated by ',' or '-';  value token: n i<k> f<k> s<k> z l<k> v<k> a<k> c<k>
   prints per op  m <call> | <records> | n=<running> th=<threads> vm=<VMs>[ hang][ UB]   (model) then  s ...  (specification) *)
let kinds = "ifszlvac"
let num (w : string) : int =
  if String.length w > 1 then (try int_of_string (String.sub w 1 (String.length w - 1)) with _ -> 0) else 0
let parse_val (w : string) : dval =
  if w = "" || w.[0] = 'n' then DNil
  else match String.index_opt kinds w.[0] with
    | Some k -> DData (n_of_int k, (if w.[0] = 'z' then n_of_int 0 else n_of_int (num w)))
    | None -> DNil
let split c s = List.filter (fun w -> w <> "") (String.split_on_char c s)
(* P<w<n>|p>(:<d><W<e>|U|D>)*  e.g. Pw5:1W5:1D *)
let parse_park (w : string) : step =
  let parts = String.split_on_char ':' w in
  let lead = List.hd parts in
  let wt = if String.length lead >= 2 && lead.[1] = 'w'
    then Some (n_of_int (try int_of_string (String.sub lead 2 (String.length lead - 2)) with _ -> 0)) else None in
  let act (a : string) : (n * hact) =
    let i = ref 0 in
    while !i < String.length a && a.[!i] >= '0' && a.[!i] <= '9' do incr i done;
    let d = if !i = 0 then 0 else int_of_string (String.sub a 0 !i) in
    let rest = String.sub a !i (String.length a - !i) in
    let arg = if String.length rest > 1 then (try int_of_string (String.sub rest 1 (String.length rest - 1)) with _ -> 0) else 0 in
    (n_of_int d, (if rest = "" then APause else match rest.[0] with 'W' -> AWait (n_of_int arg) | 'D' -> ADelete | _ -> APause)) in
  SPark (wt, List.map act (List.filter (fun x -> x <> "") (List.tl parts)))
let parse_level (p : string) : level =
  let rec go pre post seen = function
    | [] -> (List.rev pre, List.rev post, FFall)
    | w :: rest ->
      let add st = if seen then go pre (st :: post) seen rest else go (st :: pre) post seen rest in
      let fin f = (List.rev pre, List.rev post, f) in
      (match w.[0] with
       | 't' -> go pre post true rest
       | 'w' -> add (SWait (n_of_int (num w)))
       | 'p' -> add (SPause (n_of_int (num w)))
       | 'P' -> add (parse_park w)
       | 'e' -> fin (FEnd (RLit (parse_val (String.sub w 1 (String.length w - 1)))))
       | 'r' -> fin (FEnd (RArg (nat_of_int (num w))))
       | 'L' -> fin (FEnd RLocal)
       | 'g' -> fin (FEnd (RLevel (n_of_int (num w))))
       | 'x' -> fin FEndNone
       | 'o' -> fin FFall
       | 'k' -> fin (FKill (n_of_int (num w)))
       | 'q' -> fin (FKillTimed (n_of_int (num w)))
       | 'h' -> fin FNever
       | 'S' -> fin FSelfDel
       | 'K' -> fin (FSyncKill (nat_of_int (num w)))
       | 'N' -> fin FEndOn
       | _ -> go pre post seen rest) in
  let toks = split ',' p in
  let (pre, post, f) = go [] [] false toks in
  (* without a `t` the sub-thread is started first: all steps come after it *)
  if List.mem "t" toks then { lpre = pre; lpost = post; lfin = f } else { lpre = []; lpost = pre; lfin = f }
let parse_prog (p : string) : level list = List.map parse_level (split '/' p)
let nn s = n_of_int (int_of_string s)
let parse_op (l : string) : op option =
  match words l with
  | ["C"; lbl; np; prog; args] ->
    let a = if args = "-" then [] else List.map parse_val (split ',' args) in
    (* np: a number (parameters local.p1..), or @t.t.. with t = <j> (local.p<j>) | v<k> (a level/game/parm variable) *)
    let (n, pt) =
      if String.length np > 0 && np.[0] = '@' then
        let ts = split '.' (String.sub np 1 (String.length np - 1)) in
        (List.length ts, List.map (fun w -> if w.[0] = 'v' then PLev (n_of_int (num w)) else PLoc (nat_of_int (int_of_string w))) ts)
      else (int_of_string np, []) in
    Some (OCall (lbl = "1", nat_of_int n, pt, parse_prog prog, a))
  | ["Y"; r] -> Some (OCopy (nn r))
  | ["V"; r] -> Some (OReserve (nn r))
  | ["M"; r] -> Some (OMove (nn r))
  | ["D"; r] -> Some (ODestroy (nn r))
  | ["S"; a; b] -> Some (OAssign (nn a, nn b))
  | ["U"; a; b] -> Some (OMoveAssign (nn a, nn b))
  | ["T"; d] -> Some (OAdvance (nn d))
  | ["X"] -> Some OExecute
  | ["Z"] -> Some OReset
  | _ -> None
let dval_str (full : bool) (d : dval) : string =
  match d with
  | DNil -> "n"
  | DData (k, i) ->
    let c = kinds.[int_of_n k] in
    if c = 'z' then "z"
    else if (not full) && (c = 'l' || c = 'a' || c = 'c') then String.make 1 c
    else Printf.sprintf "%c%d" c (int_of_n i)
let tok_str = function TD d -> dval_str true d | TPend -> "p" | TDead -> "DEAD"
let obs_str (o : obs) : string =
  let call = match o.ocall with
    | CNone -> "-"
    | CNoLabel -> "nolabel"
    | COk (a, ps) ->
      Printf.sprintf "ok:%d:%s" (if a then 1 else 0)
        (if ps = [] then "-" else String.concat "," (List.map (dval_str false) ps)) in
  let recs = if o.orecs = [] then "-" else
      String.concat " " (List.map (fun (r, ts) ->
          Printf.sprintf "r%d=%s" (int_of_n r) (if ts = [] then "-" else String.concat "," (List.map tok_str ts))) o.orecs) in
  Printf.sprintf "%s | %s | n=%d th=%d vm=%d%s%s" call recs (int_of_nat o.onrun) (int_of_nat o.onth) (int_of_nat o.onth)
    (if o.ohang then " hang" else "") (if o.oub then " UB" else "")
let () =
  let lines = read_lines stdin in
  let rec cases ls = match ls with
    | [] -> ()
    | l :: rest ->
      (match words l with
       | "case" :: id :: _ ->
         let rec take acc ls = match ls with
           | [] -> (List.rev acc, [])
           | l :: r -> (match parse_op l with Some o -> take (o :: acc) r | None -> (List.rev acc, ls)) in
         let (ops, rest) = take [] rest in
         Printf.printf "case %s\n" id;
         List.iter (fun o -> Printf.printf "m %s\n" (obs_str o)) (run ops);
         List.iter (fun o -> Printf.printf "s %s\n" (obs_str o)) (spec_run ops);
         print_string "end\n";
         cases (match rest with "end" :: r -> r | r -> r)
       | _ -> cases rest)
  in cases lines
