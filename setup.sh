#!/bin/sh
# setup: build the whole Coq development (full .vo build) from files on disk only.
set -e
cd "$(dirname "$0")"
python3 - <<'PY'
import sys
sys.path.insert(0, 'lib')
import vlib
vlib.coq_project()
PY
cd coq
timeout 3000 make -k -j16 >/dev/null 2>&1 || timeout 3000 make -k -j16 2>&1 | tail -40
echo setup-done
