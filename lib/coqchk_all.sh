#!/bin/sh
# re-check every compiled property module and everything it depends on with Coq's independent
# checker and print the axioms of the whole closure (about 1 minute; run after ./setup.sh)
cd "$(dirname "$0")/../coq" || exit 2
mods=$(ls */Properties.v | sed 's|/Properties.v||' | awk '{printf "Morfuse.%s.Properties ", $1}')
exec timeout 3000 coqchk -o -silent -Q . Morfuse $mods
