"""vlib — shared machinery of the morfuse verification framework.

build cache (library variants, harnesses, OCaml drivers), the Coq build, parsing of
`Print Assumptions`, evidence and violation reporting, known findings, shrinking.
Everything is rebuilt from /repo's current working tree; caches are keyed by content
hashes and live outside /repo and /verif (re-created when missing)."""
import concurrent.futures
import glob
import hashlib
import json
import os
import random
import re
import shutil
import subprocess
import sys
import time

VERIF = os.path.dirname(os.path.dirname(os.path.abspath(__file__)))
REPO = os.environ.get("VERIF_REPO", "/repo")
CACHE = os.environ.get("VERIF_CACHE", "/var/tmp/morfuse-verif-cache")
COQ = os.path.join(VERIF, "coq")
NPROC = os.cpu_count() or 4
GUARD = "MORFUSE_VERIF"

ASAN_ENV = {"ASAN_OPTIONS": "detect_leaks=0:abort_on_error=0:allocator_may_return_null=1",
            "UBSAN_OPTIONS": "print_stacktrace=1:halt_on_error=1"}

# -DNDEBUG as in the project's own RelWithDebInfo build (asserts off: the properties are about
# the behaviour of the released library)
VARIANTS = {
    "plain": ["-O1", "-g", "-DNDEBUG"],
    "asan": ["-O1", "-g", "-DNDEBUG", "-fsanitize=address,undefined", "-fno-sanitize-recover=all",
             "-fno-sanitize=signed-integer-overflow",   # string/event hash functions wrap on purpose
             "-fno-sanitize=alignment",                 # the compile arena (PreAllocator) is an unaligned bump allocator: DESIGN.md 6, F-C01-f
             "-fno-sanitize=pointer-overflow",          # the compiler's counting pass does pointer arithmetic on a null code base by design
             "-fno-sanitize=vptr",                      # flex's generated ~yyFlexLexer downcasts during destruction
             "-fno-omit-frame-pointer"],
    "tsan": ["-O1", "-g", "-DNDEBUG", "-fsanitize=thread"],
}


class FileLock:
    """advisory lock so that concurrent checks do not race in the shared build directories"""

    def __init__(self, name):
        os.makedirs(CACHE, exist_ok=True)
        self.path = os.path.join(CACHE, name + ".lock")

    def __enter__(self):
        import fcntl
        self.f = open(self.path, "w")
        fcntl.flock(self.f, fcntl.LOCK_EX)
        return self

    def __exit__(self, *a):
        import fcntl
        fcntl.flock(self.f, fcntl.LOCK_UN)
        self.f.close()


def sh(cmd, timeout=600, cwd=None, inp=None, env=None):
    """run a command; returns (rc, stdout, stderr); rc = -9 on timeout"""
    e = dict(os.environ)
    if env:
        e.update(env)
    try:
        p = subprocess.run(cmd, cwd=cwd, input=inp, capture_output=True, text=True,
                           timeout=timeout, env=e, errors="replace")
        return p.returncode, p.stdout, p.stderr
    except subprocess.TimeoutExpired as ex:
        out = ex.stdout or ""
        err = ex.stderr or ""
        if isinstance(out, bytes):
            out = out.decode(errors="replace")
        if isinstance(err, bytes):
            err = err.decode(errors="replace")
        return -9, out, err


def digest_files(paths, extra=""):
    h = hashlib.sha256()
    h.update(extra.encode())
    for p in sorted(paths):
        h.update(p.encode())
        try:
            with open(p, "rb") as f:
                h.update(f.read())
        except OSError:
            h.update(b"<missing>")
    return h.hexdigest()[:20]


def repo_sources():
    src = glob.glob(os.path.join(REPO, "src", "**", "*.cpp"), recursive=True)
    return sorted(src)


def repo_all_files():
    fs = []
    for root in ("src", "include"):
        for dp, _, fn in os.walk(os.path.join(REPO, root)):
            for f in fn:
                fs.append(os.path.join(dp, f))
    return sorted(fs)


def _prune(prefix, keep, spare=2):
    """keep the entry named `keep` and the `spare` newest other entries for a prefix
    (a concurrent check may still be linking against the previous one)"""
    if not os.path.isdir(CACHE):
        return
    others = [d for d in os.listdir(CACHE) if d.startswith(prefix) and d != keep and not d.endswith(".lock")]
    others.sort(key=lambda d: os.path.getmtime(os.path.join(CACHE, d)), reverse=True)
    now = time.time()
    for d in others[spare:]:
        path = os.path.join(CACHE, d)
        try:
            if now - os.path.getmtime(path) < 2 * 3600:
                continue      # recent: a check running on another tree (VERIF_REPO) may be using it
        except OSError:
            continue
        shutil.rmtree(path, ignore_errors=True)


def build_lib(variant="plain"):
    """static library of /repo's current tree with -DMORFUSE_VERIF; returns (archive, include flags)"""
    with FileLock("lib-" + variant):
        return _build_lib(variant)


def _build_lib(variant):
    flags = ["-std=c++17", "-w", "-D%s=1" % GUARD] + VARIANTS[variant]
    key = digest_files(repo_all_files(), " ".join(flags))
    name = "lib-%s-%s" % (variant, key)
    d = os.path.join(CACHE, name)
    lib = os.path.join(d, "libmorfuse_verif.a")
    gen = os.path.join(d, "generated")
    inc = ["-I" + os.path.join(REPO, "include"), "-I" + os.path.join(REPO, "src"), "-I" + gen]
    if os.path.exists(lib):
        return lib, inc
    _prune("lib-%s-" % variant, name)
    os.makedirs(os.path.join(gen, "Parser"), exist_ok=True)
    rc, o, e = sh(["bison", "-d", "-o", os.path.join(gen, "Parser", "yyParser.cpp"),
                   os.path.join(REPO, "src", "Parser", "yyParser.yy")], cwd=os.path.join(REPO, "src"))
    if rc != 0:
        raise BuildError("bison failed:\n" + e)
    rc, o, e = sh(["flex", "-Cem", "--header-file=" + os.path.join(gen, "Parser", "yyLexer.hpp"),
                   "-o" + os.path.join(gen, "Parser", "yyLexer.cpp"),
                   os.path.join(REPO, "src", "Parser", "yyLexer.l")], cwd=os.path.join(REPO, "src"))
    if rc != 0:
        raise BuildError("flex failed:\n" + e)
    srcs = repo_sources() + [os.path.join(gen, "Parser", "yyParser.cpp"), os.path.join(gen, "Parser", "yyLexer.cpp")]
    objdir = os.path.join(d, "obj")
    os.makedirs(objdir, exist_ok=True)

    def comp(i_src):
        i, src = i_src
        obj = os.path.join(objdir, "%03d_%s.o" % (i, os.path.basename(src)))
        rc, o, e = sh(["g++"] + flags + inc + ["-c", src, "-o", obj], timeout=900)
        return rc, src, e, obj

    objs = []
    with concurrent.futures.ThreadPoolExecutor(NPROC) as ex:
        for rc, src, e, obj in ex.map(comp, list(enumerate(srcs))):
            if rc != 0:
                raise BuildError("compile failed: %s\n%s" % (src, e[-3000:]))
            objs.append(obj)
    tmp = lib + ".tmp"
    rc, o, e = sh(["ar", "rcs", tmp] + objs)
    if rc != 0:
        raise BuildError("ar failed: " + e)
    os.rename(tmp, lib)
    shutil.rmtree(objdir, ignore_errors=True)
    return lib, inc


class BuildError(Exception):
    pass


def build_harness(name, sources, variant="plain", use_lib=False, extra_flags=(), repo_deps=None,
                  defines=()):
    """compile a C++ harness against /repo's current tree.
    sources: paths (absolute or relative to /verif); repo_deps: repo files whose content
    keys the cache when the library is not linked (default: everything under include/)."""
    srcs = [s if os.path.isabs(s) else os.path.join(VERIF, s) for s in sources]
    flags = ["-std=c++17", "-w", "-D%s=1" % GUARD] + VARIANTS[variant] + list(extra_flags) + ["-D" + x for x in defines]
    if use_lib:
        lib, inc = build_lib(variant)
        dep_key = lib
        link = [lib, "-lpthread"]
    else:
        inc = ["-I" + os.path.join(REPO, "include"), "-I" + os.path.join(REPO, "src")]
        deps = repo_deps if repo_deps is not None else repo_all_files()
        dep_key = digest_files(deps)
        link = ["-lpthread"]
    hdrs = glob.glob(os.path.join(VERIF, "harness", "*.h"))
    key = digest_files(srcs + hdrs, dep_key + " ".join(flags))
    dname = "h-%s-%s-%s" % (name, variant, key)
    d = os.path.join(CACHE, dname)
    exe = os.path.join(d, name)
    if os.path.exists(exe):
        return exe
    _prune("h-%s-%s-" % (name, variant), dname)
    os.makedirs(d, exist_ok=True)
    rc, o, e = sh(["g++"] + flags + inc + ["-I" + os.path.join(VERIF, "harness")] + srcs + link + ["-o", exe + ".tmp"], timeout=1200)
    if rc != 0:
        raise BuildError("harness %s failed to compile:\n%s" % (name, e[-4000:]))
    os.rename(exe + ".tmp", exe)
    return exe


# ----------------------------------------------------------------------------------- Coq

def coq_project():
    """(re)write _CoqProject and the Makefile when the set of .v files changed"""
    vs = sorted(os.path.relpath(p, COQ) for p in glob.glob(os.path.join(COQ, "**", "*.v"), recursive=True))
    txt = "-Q . Morfuse\n-arg -w -arg -all\n" + "\n".join(vs) + "\n"
    cp = os.path.join(COQ, "_CoqProject")
    old = open(cp).read() if os.path.exists(cp) else ""
    if old != txt or not os.path.exists(os.path.join(COQ, "Makefile")):
        with open(cp, "w") as f:
            f.write(txt)
        rc, o, e = sh(["coq_makefile", "-f", "_CoqProject", "-o", "Makefile"], cwd=COQ)
        if rc != 0:
            raise BuildError("coq_makefile failed: " + e)


def coq_make(targets, timeout=1500):
    """full .vo build of the given targets; returns (ok, log)"""
    with FileLock("coq"):
        coq_project()
        rc, o, e = sh(["make", "-k", "-j%d" % NPROC] + list(targets), cwd=COQ, timeout=timeout)
    return rc == 0, o + e


def coq_property_file(cid, timeout=600):
    """compile Cnn/Properties.v itself (always re-run, it only contains `exact`s) and parse
    the Print Assumptions output.  returns dict(ok, theorems=[names], assumptions={name: [...]}, log)"""
    src = os.path.join(COQ, cid, "Properties.v")
    names = re.findall(r"^\s*Theorem\s+([A-Za-z0-9_']+)", open(src).read(), re.M)
    with FileLock("coq"):
        rc, o, e = sh(["coqc", "-Q", ".", "Morfuse", "-w", "-all", os.path.join(cid, "Properties.v")], cwd=COQ, timeout=timeout)
    res = {"ok": rc == 0, "theorems": names, "assumptions": {}, "log": (o + e)[-4000:]}
    if rc != 0:
        return res
    # split the output into one chunk per Print Assumptions
    chunks = []
    cur = None
    for line in o.splitlines():
        if line.startswith("Closed under the global context"):
            chunks.append([])
            cur = None
        elif line.startswith("Axioms:"):
            cur = []
            chunks.append(cur)
        elif cur is not None and line.strip():
            if not line.startswith(" "):
                cur.append(line.split(":")[0].strip())
    for i, n in enumerate(names):
        res["assumptions"][n] = chunks[i] if i < len(chunks) else ["<no Print Assumptions output>"]
    res["printed"] = len(chunks)
    return res


FORBIDDEN = re.compile(r"\b(Admitted|admit|Axiom|Parameter|Conjecture|Unset Guard|bypass_check|type-in-type|impredicative-set|Admit Obligations)\b")


def coq_hygiene(dirs):
    """grep the development for declarations that would weaken it"""
    bad = []
    for d in dirs:
        for p in glob.glob(os.path.join(COQ, d, "*.v")):
            for i, line in enumerate(open(p), 1):
                code = re.sub(r"\(\*.*?\*\)", "", line)
                if FORBIDDEN.search(code):
                    bad.append("%s:%d: %s" % (os.path.relpath(p, VERIF), i, line.strip()))
    return bad


def ocaml_driver(cid):
    """build ocaml/<cid>_driver.ml against coq/<cid>_model.ml (extracted by <cid>/Extract.vo)"""
    ml = os.path.join(COQ, "%s_model.ml" % cid)
    mli = os.path.join(COQ, "%s_model.mli" % cid)
    drv = os.path.join(VERIF, "ocaml", "%s_driver.ml" % cid)
    hlp = os.path.join(VERIF, "ocaml", "helpers.ml")
    if not os.path.exists(ml):
        raise BuildError("extracted model %s missing" % ml)
    hz = os.path.join(VERIF, "ocaml", "helpers_z.ml")
    use_z = "(*USE_Z*)" in open(drv).read()
    key = digest_files([ml, mli, drv, hlp] + ([hz] if use_z else []))
    dname = "ml-%s-%s" % (cid, key)
    d = os.path.join(CACHE, dname)
    exe = os.path.join(d, "drv")
    if os.path.exists(exe):
        return exe
    _prune("ml-%s-" % cid, dname)
    os.makedirs(d, exist_ok=True)
    shutil.copy(ml, os.path.join(d, "model.ml"))
    shutil.copy(mli, os.path.join(d, "model.mli"))
    with open(os.path.join(d, "main.ml"), "w") as f:
        f.write(open(hlp).read())
        if use_z:
            f.write(open(hz).read())
        f.write(open(drv).read())
    rc, o, e = sh(["ocamlfind", "ocamlopt", "-O3", "-w", "-a", "model.mli", "model.ml", "main.ml", "-o", "drv.tmp"], cwd=d, timeout=600)
    if rc != 0:
        rc, o, e = sh(["ocamlfind", "ocamlopt", "-w", "-a", "model.mli", "model.ml", "main.ml", "-o", "drv.tmp"], cwd=d, timeout=600)
    if rc != 0:
        raise BuildError("ocaml driver for %s failed:\n%s" % (cid, e[-3000:]))
    os.rename(os.path.join(d, "drv.tmp"), exe)
    return exe


# ------------------------------------------------------------------------- known findings

def known_findings(cid):
    p = os.path.join(VERIF, "known_findings.json")
    if not os.path.exists(p):
        return []
    data = json.load(open(p))
    return [f for f in data.get("findings", []) if f.get("property") == cid]


# ------------------------------------------------------------------------------- results

class Result:
    """collects what one check run did; writes evidence; prints the verdict lines"""

    def __init__(self, cid, tier, seed):
        self.cid, self.tier, self.seed = cid, tier, seed
        self.t0 = time.time()
        self.violations = []      # (replay path, no_input)
        self.known = []
        self.cov = {"obligations": 0, "discharged": 0, "checker_cmd": "", "trusted_base": [],
                    "evaluations": 0, "distinct_nontrivial": 0, "rule": "", "samples": []}
        self.assumptions = []
        self.notes = []

    def violation(self, replay_obj, no_input=False):
        d = os.path.join(VERIF, "replays", self.cid)
        os.makedirs(d, exist_ok=True)
        body = json.dumps(replay_obj, indent=1, sort_keys=True)
        hid = hashlib.sha256(body.encode()).hexdigest()[:12]
        path = os.path.join(d, "%s.json" % hid)
        with open(path, "w") as f:
            f.write(body + "\n")
        self.violations.append((path, no_input))
        line = "VIOLATION property=%s replay=%s" % (self.cid, path)
        if no_input:
            line += " no-failing-input-found"
        print(line, flush=True)

    def known_finding(self, text):
        self.known.append(text)
        print("KNOWN-FINDING: property=%s %s" % (self.cid, text), flush=True)

    def finish(self, level="proof"):
        ev = {"property_id": self.cid, "tier": self.tier, "seed": self.seed, "level": level,
              "coverage": self.cov, "assumptions": self.assumptions,
              "wall_s": round(time.time() - self.t0, 2), "violations": len(self.violations)}
        if self.known:
            ev["coverage"]["known_findings_reported"] = self.known
        if self.notes:
            ev["coverage"]["notes"] = self.notes
        os.makedirs(os.path.join(VERIF, "evidence"), exist_ok=True)
        with open(os.path.join(VERIF, "evidence", "%s.json" % self.cid), "w") as f:
            json.dump(ev, f, indent=1, sort_keys=True)
            f.write("\n")
        if self.violations:
            return 1
        print("OK property=%s tier=%s obligations=%d/%d evaluations=%d wall=%.1fs" % (
            self.cid, self.tier, self.cov["discharged"], self.cov["obligations"],
            self.cov["evaluations"], time.time() - self.t0), flush=True)
        return 0


TRUSTED_BASE = [
    "Coq 8.16.1 kernel (coqc); vm_compute used for finite sweeps; native_compute not used",
    "Coq extraction with ExtrOcamlBasic directives only (bool, option, unit, list, prod, sumbool, sumor); no Extract Constant",
    "OCaml 4.13.1 and the line-format driver ocaml/<id>_driver.ml + helpers.ml",
    "C++ harness harness/<id>.cpp, g++ 12, sanitizer runtimes",
    "python generators/canonicalisers in props/<id>.py and lib/vlib.py",
]


def proof_stage(res, cid, extra_targets=(), dirs=None):
    """build the Coq side of a property: Properties.vo (+Extract.vo); fills obligation counts.
    returns dict(ok, props, build_log)"""
    targets = ["%s/Properties.vo" % cid] + list(extra_targets)
    ok, log = coq_make(targets)
    props = coq_property_file(cid) if ok else {"ok": False, "theorems": [], "assumptions": {}, "log": log[-4000:]}
    if not ok:
        # which theorems exist at all (for the obligation count)
        try:
            src = open(os.path.join(COQ, cid, "Properties.v")).read()
            props["theorems"] = re.findall(r"^\s*Theorem\s+([A-Za-z0-9_']+)", src, re.M)
        except OSError:
            pass
    bad = coq_hygiene(dirs or ["Base", cid])
    res.cov["obligations"] += len(props["theorems"])
    res.cov["discharged"] += len(props["theorems"]) if (ok and props["ok"] and not bad) else 0
    res.cov.setdefault("theorems", []).extend(props["theorems"])
    res.cov.setdefault("print_assumptions", {}).update(props.get("assumptions", {}))
    res.cov.setdefault("hygiene_violations", []).extend(bad)
    cmd = "make -C coq %s && coqc -Q . Morfuse %s/Properties.v (Print Assumptions under every theorem)" % (" ".join(targets), cid)
    res.cov["checker_cmd"] = (res.cov["checker_cmd"] + " ; " if res.cov["checker_cmd"] else "") + cmd
    res.cov["trusted_base"] = list(TRUSTED_BASE)
    axioms = sorted(set(res.cov.get("axioms", [])) | {a for l in props.get("assumptions", {}).values() for a in l})
    res.cov["axioms"] = axioms
    return {"ok": ok and props["ok"] and not bad, "props": props, "build_log": log[-6000:], "hygiene": bad}


def ddmin(items, fails, max_runs=400):
    """delta debugging: smallest sub-list of items (order kept) on which fails(sub) is True"""
    runs = [0]

    def test(sub):
        runs[0] += 1
        return fails(sub)

    n = 2
    cur = list(items)
    while len(cur) >= 2 and runs[0] < max_runs:
        chunk = max(1, len(cur) // n)
        subsets = [cur[i:i + chunk] for i in range(0, len(cur), chunk)]
        reduced = False
        for i in range(len(subsets)):
            comp = [x for j, s in enumerate(subsets) if j != i for x in s]
            if comp and test(comp):
                cur = comp
                n = max(n - 1, 2)
                reduced = True
                break
        if not reduced:
            if chunk == 1:
                break
            n = min(len(cur), n * 2)
    return cur


def seed_from_env():
    try:
        return int(os.environ.get("VERIF_SEED", "1"))
    except ValueError:
        return 1


# ------------------------------------------------------------- case batches (histories)

class Case:
    """one generated history / input: header words + one op per line"""

    def __init__(self, cid, header, ops, origin=""):
        self.id, self.header, self.ops, self.origin = str(cid), str(header), list(ops), origin

    def text(self, extra=None):
        s = "case %s %s\n" % (self.id, self.header) + "".join(o + "\n" for o in self.ops)
        if extra is not None:
            s += "trace\n" + "".join(l + "\n" for l in extra)
        return s + "end\n"

    def to_json(self):
        return {"header": self.header, "ops": self.ops, "origin": self.origin}


def split_output(out):
    """{case id: [lines]} from 'case <id> ..' ... 'end'"""
    res, cur, last = {}, None, None
    for line in out.splitlines():
        if line.startswith("case "):
            w = line.split()
            cur = []
            last = w[1]
            res[last] = cur
        elif line == "end":
            if cur is not None:
                cur.append("end")
            cur = None
        elif cur is not None:
            cur.append(line)
    return res, last


def run_resilient(exe, args, cases, env=None, timeout=300, extras=None, max_crashes=6):
    """run a batch; when the process dies or hangs, blame the case it was in, record it
    and continue with the rest.  returns (outputs {id: lines}, crashes {id: info})"""
    outputs, crashes = {}, {}
    todo = list(cases)
    while todo:
        text = "".join(c.text(extras.get(c.id) if extras else None) for c in todo)
        rc, o, e = sh([exe] + list(args), inp=text, env=env, timeout=timeout)
        outs, last = split_output(o)
        complete = {k: v for k, v in outs.items() if v and v[-1] == "end"}
        for k, v in complete.items():
            outputs[k] = v[:-1]
        if rc == 0 and len(complete) == len(todo):
            break
        # find the first case without a complete output
        idx = None
        for i, c in enumerate(todo):
            if c.id not in complete:
                idx = i
                break
        if idx is None:
            break
        c = todo[idx]
        crashes[c.id] = {"rc": rc, "partial": outs.get(c.id, [])[-20:],
                         "stderr": e[-3000:], "timeout": rc in (-9, 124)}
        todo = todo[idx + 1:]
        if len(crashes) >= max_crashes:
            for c in todo:
                crashes[c.id] = {"rc": "not-run", "stderr": "skipped after %d crashes/hangs in this batch" % max_crashes, "skipped": True}
            break
    return outputs, crashes


# ------------------------------------------------------------------ generic history check

class HistoryProp:
    """A property decided by: theorem(s) about an executable model + differential run of the
    model against the implementation on generated histories + the extracted specification
    monitor run over the implementation's trace.  Subclasses fill in the hooks."""
    cid = "C00"
    variant = "asan"
    harness_sources = []
    use_lib = False
    repo_deps = None            # list of repo files the harness depends on (None = all)
    coq_dirs = None
    has_monitor = True          # the OCaml driver supports `monitor` mode
    batch = 4000
    timeout = 600

    def gen(self, tier, seed):            # -> list[Case]
        raise NotImplementedError

    def canon_model(self, lines):         # -> (compared, detail, verdict_ok)
        raise NotImplementedError

    def canon_impl(self, lines):          # -> (compared, detail, direct_violations, monitor_lines)
        raise NotImplementedError

    def nontrivial(self, case, compared):
        return len(case.ops) >= 3

    def assumptions(self):
        return []

    def known_match(self, record):        # -> text of a listed known finding or None
        for f in known_findings(self.cid):
            if f.get("signature") and f["signature"] == record.get("signature"):
                return f.get("what", f["signature"])
        return None


def _run_pair(hp, drv, exe, cases):
    """returns {id: record} with keys model, impl, crash, cmp_equal, detail_equal, direct, monitor_ok"""
    env = ASAN_ENV if hp.variant in ("asan",) else None
    mo, mcr = run_resilient(drv, ["model"], cases, timeout=hp.timeout)
    io, icr = run_resilient(exe, [], cases, env=env, timeout=hp.timeout)
    recs = {}
    extras = {}
    for c in cases:
        r = {"case": c}
        if c.id in mcr or c.id not in mo:
            r["model_crash"] = mcr.get(c.id, {"rc": "missing"})
        else:
            r["m_cmp"], r["m_det"], r["m_verdict"] = hp.canon_model(mo[c.id])
        if c.id in icr and icr[c.id].get("skipped"):
            r["skipped"] = True
        elif c.id in icr or c.id not in io:
            r["crash"] = icr.get(c.id, {"rc": "missing"})
        else:
            r["i_cmp"], r["i_det"], r["direct"], mon = hp.canon_impl(io[c.id])
            r["impl_raw"] = io[c.id]
            if mon is not None:
                extras[c.id] = mon
        recs[c.id] = r
    if hp.has_monitor and extras:
        mc = [c for c in cases if c.id in extras]
        vo, vcr = run_resilient(drv, ["monitor"], mc, timeout=hp.timeout, extras=extras)
        for c in mc:
            lines = vo.get(c.id, [])
            v = [l for l in lines if l.startswith("verdict")]
            recs[c.id]["monitor"] = v[0] if v else "verdict missing"
    return recs


def _err_head(err):
    i = err.find("ERROR:")
    if i < 0:
        i = err.find("runtime error")
    if i < 0:
        return err[-1200:]
    return err[max(0, i - 40):i + 1200]


def _classify(hp, r):
    """-> None (fine) or dict(kind, concrete: bool, why)"""
    if r.get("skipped"):
        return {"kind": "skipped", "concrete": False, "why": "not run"}
    if "model_crash" in r:
        return {"kind": "model-crash", "concrete": False, "why": str(r["model_crash"])[:500]}
    if "crash" in r:
        c = r["crash"]
        return {"kind": "timeout" if c.get("timeout") else "crash", "concrete": True,
                "why": "implementation %s: rc=%s\n%s" % ("hung" if c.get("timeout") else "crashed", c.get("rc"), _err_head(c.get("stderr", "")))}
    if r.get("direct"):
        return {"kind": "direct", "concrete": True, "why": "; ".join(r["direct"][:5])}
    mon = r.get("monitor")
    if mon is not None and mon != "verdict ok":
        return {"kind": "spec-monitor", "concrete": True, "why": "specification monitor rejects the implementation's trace: " + mon}
    if not r.get("m_verdict", True):
        same = (not hp.has_monitor) and r.get("i_cmp") is not None and r.get("m_cmp") == r.get("i_cmp")
        return {"kind": "model-vs-spec", "concrete": same,
                "why": "the model's own trace differs from the specification (theorem broken?)" +
                       ("; the implementation's trace equals the model's, so the implementation differs from the specification on this input" if same else "")}
    if r["m_cmp"] != r["i_cmp"]:
        k = 0
        while k < min(len(r["m_cmp"]), len(r["i_cmp"])) and r["m_cmp"][k] == r["i_cmp"][k]:
            k += 1
        return {"kind": "correspondence", "concrete": not hp.has_monitor, "at": k,
                "why": "model and implementation differ at observation %d: model=%s impl=%s" % (
                    k, r["m_cmp"][k] if k < len(r["m_cmp"]) else None, r["i_cmp"][k] if k < len(r["i_cmp"]) else None)}
    return None


def history_check(res, hp, tier, seed, proof=True):
    cid = hp.cid
    unit = getattr(hp, "unit", None) or cid
    res.assumptions += hp.assumptions()
    pst = {"ok": True}
    if proof:
        pst = proof_stage(res, unit, extra_targets=["%s/Extract.vo" % unit], dirs=hp.coq_dirs)
    drv = ocaml_driver(unit)
    exe = build_harness(unit, hp.harness_sources, hp.variant, hp.use_lib, repo_deps=hp.repo_deps)
    cases = hp.gen(tier, seed)
    res.cov["evaluations"] += len(cases)
    origins = {}
    for c in cases:
        origins[c.origin] = origins.get(c.origin, 0) + 1
    res.cov.setdefault("input_distribution", {})[unit] = {"by_origin": origins,
                                     "ops_total": sum(len(c.ops) for c in cases),
                                     "max_len": max([len(c.ops) for c in cases] or [0])}
    seen, nontriv, detail_mismatch, validated = set(), 0, 0, 0
    bad = []
    for i in range(0, len(cases), hp.batch):
        chunk = cases[i:i + hp.batch]
        recs = _run_pair(hp, drv, exe, chunk)
        for c in chunk:
            r = recs[c.id]
            v = _classify(hp, r)
            if v is None:
                validated += 1
                key = hashlib.sha256(repr((c.header, r["i_cmp"])).encode()).hexdigest()
                if key not in seen:
                    seen.add(key)
                    if hp.nontrivial(c, r["i_cmp"]):
                        nontriv += 1
                if r.get("m_det") != r.get("i_det"):
                    detail_mismatch += 1
            elif v["kind"] != "skipped":
                bad.append((c, v))
        if len(bad) > 50:
            break
    res.cov["traces_validated_against_impl"] = res.cov.get("traces_validated_against_impl", 0) + validated
    res.cov["distinct_nontrivial"] += nontriv
    res.cov["model_detail_mismatches"] = res.cov.get("model_detail_mismatches", 0) + detail_mismatch
    res.cov["disagreements_checked"] = res.cov.get("disagreements_checked", 0) + len(bad)
    res.cov["samples"] += [dict(c.to_json(), unit=unit, ops=c.ops[:40]) for c in cases[:2] + cases[-1:]]

    # a hang seen in a batch on a loaded machine may be slowness: re-run such a case alone with a
    # tenfold time budget; only a case that hangs again is reported
    confirmed = []
    unconfirmed = 0
    hang_confirmed = False
    reruns = 0
    for c, v in bad:
        if v["kind"] == "timeout" and not hang_confirmed:
            reruns += 1
            if reruns > 10:
                unconfirmed += 1      # ten hangs in a row did not reproduce alone: a loaded machine
                continue
            os.environ["VERIF_WATCHDOG_SCALE"] = "10"
            try:
                rr = _run_pair(hp, drv, exe, [c])[c.id]
                vv = _classify(hp, rr)
            finally:
                os.environ.pop("VERIF_WATCHDOG_SCALE", None)
            if vv is None:
                unconfirmed += 1
                continue
            v = vv
            if v["kind"] == "timeout":
                hang_confirmed = True
        confirmed.append((c, v))
    bad = confirmed
    res.cov["batch_timeouts_not_reproduced_alone"] = res.cov.get("batch_timeouts_not_reproduced_alone", 0) + unconfirmed

    # report: shrink each distinct kind once
    reported = set()
    reported_kinds = set()
    for c, v in bad:
        if v["kind"] in reported_kinds:
            continue
        reported_kinds.add(v["kind"])

        def fails(ops, kind=v["kind"]):
            cc = Case("s", c.header, ops, "shrink")
            rr = _run_pair(hp, drv, exe, [cc])["s"]
            vv = _classify(hp, rr)
            return vv is not None and vv["kind"] == kind
        ops = c.ops
        if len(ops) <= 400:
            try:
                ops = ddmin(c.ops, fails, max_runs=20 if v["kind"] == "timeout" else 150)
            except Exception:
                ops = c.ops
        cc = Case("r", c.header, ops, "shrunk from " + c.origin)
        rr = _run_pair(hp, drv, exe, [cc])["r"]
        vv = _classify(hp, rr) or v
        record = {"property": cid, "unit": unit, "kind": vv["kind"], "why": vv["why"], "header": c.header, "ops": ops,
                  "origin": c.origin, "seed": seed, "signature": hp.signature(cc, rr, vv) if hasattr(hp, "signature") else vv["kind"],
                  "model_trace": rr.get("m_cmp"), "impl_trace": rr.get("i_cmp"),
                  "replay_cmd": "./check %s --replay <this file>" % cid}
        if record["signature"] in reported:
            continue
        reported.add(record["signature"])
        km = hp.known_match(record)
        if km:
            res.known_finding(km)
            continue
        if not vv["concrete"]:
            record["broken"] = "correspondence model<->implementation for %s (see why); the specification monitor accepted the implementation's trace on every explored input" % unit
        res.violation(record, no_input=not vv["concrete"])
    if proof and not pst["ok"]:
        # a proof obligation no longer checks; any concrete failing input was reported above
        if not any(not ni for _, ni in res.violations):
            res.violation({"property": cid, "unit": unit, "kind": "proof-broken", "broken": "Coq build of %s/Properties.vo" % unit,
                           "hygiene": pst.get("hygiene"), "log": pst.get("build_log", "")[-3000:] + str(pst.get("props", {}).get("log", ""))[-3000:]},
                          no_input=True)
    return pst


def history_replay(hp, path):
    rec = json.load(open(path))
    if "ops" not in rec:
        print("replay file names a broken obligation, not an input: %s" % rec.get("broken"))
        return 1
    unit = getattr(hp, "unit", None) or hp.cid
    ok, log = coq_make(["%s/Extract.vo" % unit])
    drv = ocaml_driver(unit)
    exe = build_harness(unit, hp.harness_sources, hp.variant, hp.use_lib, repo_deps=hp.repo_deps)
    c = Case("r", rec["header"], rec["ops"], "replay")
    r = _run_pair(hp, drv, exe, [c])["r"]
    v = _classify(hp, r)
    print("model:", r.get("m_cmp"))
    print("impl :", r.get("i_cmp"), r.get("crash", ""))
    if v is None:
        print("REPLAY PASSES (no violation on the current tree)")
        return 0
    print("REPLAY FAILS: %s: %s" % (v["kind"], v["why"]))
    return 1
