#!/bin/sh
# runscript.sh [frames] [nowarn] [nodbg] < script : development probe (asan build of the current tree)
exe=$(python3 - <<'PY'
import sys
sys.path.insert(0,'/verif/lib')
import vlib
print(vlib.build_harness('runscript',['harness/runscript.cpp'],'asan',True))
PY
)
ASAN_OPTIONS=detect_leaks=0 "$exe" "$@"
