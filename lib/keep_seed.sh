#!/bin/sh
# keep_seed.sh <Cnn> <name> "<needs>" "<detected-by>" : copy a verified seeded change into /verif/seeded/<name>/
id=$1; name=$2; needs=$3; det=$4; wt=/tmp/wt/$id
out=$(/verif/lib/verify_seed.sh $id 2>&1 | grep -v conda | tail -1)
d=/verif/seeded/$name; mkdir -p $d
cp $wt/demo/patch.diff $wt/demo/run.sh $wt/demo/notes.md $d/ 2>/dev/null
cp $wt/demo/demo.cpp $d/ 2>/dev/null; cp $wt/demo/*.scr $wt/demo/*.h $d/ 2>/dev/null
python3 - "$id" "$name" "$needs" "$det" "$out" <<'PY'
import json,sys
cid,name,needs,det,out=sys.argv[1:6]
try: ver=json.loads(out)
except Exception: ver={"raw":out}
meta={"property":name.split("_")[0],"worktree":cid,"name":name,"needs_to_manifest":needs,"detected_by":det,
      "verified":ver,"ran":["lib/verify_seed.sh %s (apply patch, build, ctest 24 tests, demo/run.sh with and without the patch)"%cid,
                            "git -C /repo apply seeded/%s/patch.diff; ./check %s; git -C /repo checkout -- ."%(name,name.split("_")[0])]}
json.dump(meta,open('/verif/seeded/%s/meta.json'%name,'w'),indent=1)
print(json.dumps(meta)[:400])
PY
