#!/usr/bin/env python3
"""regenerate /verif/MANIFEST.json from the table below (keeps the manifest valid at all times)"""
import json
import os

HERE = os.path.dirname(os.path.dirname(os.path.abspath(__file__)))

# property -> (technique, level text, level note, design ref)
CLAIMED = {
    "C19": ("Coq proof of refinement to a live-set specification (all histories, all block sizes >= 2) + extracted model/monitor run against BlockAlloc",
            "Theorem C19_every_history_meets_the_spec: for every block size >= 2 and every history of alloc/delete/free-all (destructors deleting other objects) the trace of the code-level model (index-array rings, used/full lists, cached free block) is accepted by the specification monitor: no live block handed out, count = allocations - frees, a new memory block only when all slots are in use, free-all destroys each live object once. The model is tied to BlockAlloc.h by differential execution (exhaustive short histories for block size 2/3, random walks for 2/3/4/256) under ASan; the extracted monitor also runs over the implementation's own trace and yields the concrete failing history.",
            "Coq kernel; extraction (ExtrOcamlBasic); harness/C19.cpp; the two block lists are modelled as Coq lists; alignment and overlap of raw addresses are checked by the harness only (sampling); see DESIGN.md 2 and 4/C19",
            "DESIGN.md 4 (C19)"),
}

NOT_YET = "no model, theorem and correspondence check has been built for this property yet (work in progress; see DESIGN.md 9 for the order of work)"


def main():
    props = [json.loads(l) for l in open(os.path.join(HERE, "properties.jsonl"))]
    checks, na = [], []
    for p in props:
        cid = p["id"]
        if cid in CLAIMED:
            tech, text, note, ref = CLAIMED[cid]
            checks.append({
                "property_id": cid,
                "quick_cmd": "./check %s --tier quick" % cid,
                "thorough_cmd": "./check %s --tier thorough" % cid,
                "evidence_file": "evidence/%s.json" % cid,
                "replay_cmd_template": "./check %s --replay {path}" % cid,
                "engine": "coq+differential",
                "level_claimed": {"category": "proof", "text": text, "design_ref": ref},
                "level_note": note,
                "technique": tech,
            })
        else:
            na.append({"property_id": cid, "reason": NA.get(cid, NOT_YET)})
    man = {
        "version": 1,
        "setup_cmd": "./setup.sh",
        "hooks": {
            "guard": "MORFUSE_VERIF",
            "enable": "checks compile /repo's sources themselves (lib/vlib.py build_lib / build_harness) with -DMORFUSE_VERIF=1",
            "baseline_off_cmd": "cmake -G Ninja -S /repo -B /repo/_build >/dev/null && cmake --build /repo/_build >/dev/null && ctest --test-dir /repo/_build/tests -j8 --timeout 900",
            "source_commits": HOOK_COMMITS,
            "add_only": True,
        },
        "engines": [{"name": "coq+differential", "path": "check",
                     "serves_properties": sorted(CLAIMED),
                     "kind_free_text": "Coq 8.16 theorems about executable models (coq/), models and specification monitors extracted to OCaml (ocaml/), C++ harnesses against /repo's current tree (harness/), python orchestration (lib/vlib.py, props/)"}],
        "checks": checks,
        "not_applicable": na,
        "notes": "Technique: machine-checked proof in Coq; the model is tied to the code by regenerated tables and by differential execution of the extracted model. See DESIGN.md.",
    }
    with open(os.path.join(HERE, "MANIFEST.json"), "w") as f:
        json.dump(man, f, indent=1)
        f.write("\n")


NA = {}
HOOK_COMMITS = []

if __name__ == "__main__":
    main()
