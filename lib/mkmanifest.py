#!/usr/bin/env python3
"""regenerate /verif/MANIFEST.json from the table below (keeps the manifest valid at all times)"""
import json
import os

HERE = os.path.dirname(os.path.dirname(os.path.abspath(__file__)))

# property -> (technique, level text, level note, design ref)
CLAIMED = {
    "C19": ("Coq proof of refinement to a live-set specification (all histories, all block sizes >= 2) + extracted model/monitor run against BlockAlloc",
            "Theorem C19_every_history_meets_the_spec: for every block size >= 2 and every history of alloc/delete/free-all (destructors deleting other objects) the trace of the code-level model (index-array rings, used/full lists, cached free block) is accepted by the specification monitor: no live block handed out, count = allocations - frees, a new memory block only when all slots are in use, free-all destroys each live object once. The model is tied to BlockAlloc.h by differential execution (exhaustive short histories for block size 2/3, random walks for 2/3/4/256) under ASan; the extracted monitor also runs over the implementation's own trace and yields the concrete failing history.",
            "Coq kernel; extraction (ExtrOcamlBasic); harness/C19.cpp; the two block lists are modelled as Coq lists; alignment and overlap of raw addresses are checked by the harness only (sampling); see DESIGN.md 2 and 4/C19",
            "DESIGN.md 4 (C19)"),
}

CLAIMED["C12"] = (
    "Coq proof of refinement of the ring-of-references model to a map ref -> option object (all histories) + extracted model/spec run against SafePtr",
    "Theorem C12_weak_references_refine_the_map: for every sequence of create/destroy object, create/copy/assign/clear/destroy reference (unbounded slots) the observations of the code-level model (prev/next/ptr nodes, SafePtrList heads, AddReference/RemoveReference/Clear/InitSafePtr, the destructor loop with proven-sufficient fuel) equal those of the abstract map: Pointer() of every reference, and IsLastReference() = exactly one reference has that target. Tied to SafePtr.cpp/AbstractClass.cpp by differential execution (all effective histories to length 5/7 over 2 objects x 3 references, random walks over 3 x 5) under ASan.",
    "Coq kernel; extraction; harness/C12.cpp; IsLastReference is only observed on references that point to an object; see DESIGN.md 4/C12",
    "DESIGN.md 4 (C12)")
CLAIMED["C08"] = (
    "Coq proof of refinement of the insertion-sorted queue model to a pending bag delivering the (due, seq)-minimum (all histories incl. re-entrant handlers) + extracted model/spec run against EventQueue",
    "Theorems C08_*: for every history of post/cancel-by-type/cancel-all/cancel-flagged/destroy/pass/clock advance with handlers that post (possibly already due) and cancel re-entrantly, the code-level model (PostEvent's three-way insertion, pop-while-due pass) equals the specification that keeps an unordered bag and always delivers the pending event minimal in (due time, posting sequence) while it is due; a pass never hangs, leaves nothing due, the queue stays strictly sorted by (due, seq), a cancel removes exactly the named events. Tied to EventQueue.cpp/Listener.cpp by differential execution under the injected clock (hook H1) and ASan.",
    "Coq kernel; extraction; harness/C08.cpp; hook H1; LinkedList<EventQueueNode*> modelled as a Coq list; handlers do not destroy their own listener; see DESIGN.md 4/C08",
    "DESIGN.md 4 (C08)")

CLAIMED["C06"] = (
    "Coq proof of refinement of the timer model (insertion-ordered list, backward <= scan, dirty flag, two time bases) to a bag of (due, seq) waiters (all thread programs, all clock schedules) + extracted model/spec run against the engine under the injected clock",
    "Theorems C06_*: for every set of straight-line thread programs (println/wait), every start schedule and every sequence of clock advances and Execute calls, the code-level model (con::timer's element list and GetNextElement scan, AddTiming on the scaled time, SetTime/Frame, ExecuteRunning's dirty-flag loop) equals the specification that resumes the waiter minimal in (due time, registration order) while it is due: nobody is resumed early, nobody twice, nothing due remains after an Execute, the resume loop never hangs, the engine is busy while a thread waits. Tied to timer.cpp/ScriptMaster.cpp/Time.cpp/Context.cpp by differential execution of real scripts under hook H1 (exhaustive small schedules + random histories).",
    "Coq kernel; extraction; harness/C06.cpp + engine.h; hook H1 (integral clock, constant during Execute, time scale 1); threads are println/wait programs; see DESIGN.md 4/C06",
    "DESIGN.md 4 (C06)")

CLAIMED["C20"] = (
    "Coq proof of the lock protocol of the shared pools for every schedule and thread count, over lock modes regenerated from BlockAlloc.h on every run; ThreadSanitizer runs of N engines on N OS threads",
    "PARTIAL. Theorem C20_exclusive_protocol_excludes_conflicts: for every lock table in which every writing pool method takes the exclusive mode, every number of threads, every program of pool calls and every schedule, no two threads are inside the process-wide pool at once with one of them writing; C20_current_lock_modes_follow_the_protocol is re-proved against the lock modes extracted from the current BlockAlloc.h (a method that goes back to shared_lock or loses its lock breaks it; C20_shared_mode_allows_conflict shows the reachable conflict). thread_local-ness of the context singleton and interpreter depth is read off the declarations. Everything else (all other shared state, the C++ runtime) is only sampled: N OS threads each drive their own ScriptContext through compile/execute/wait/reset/destroy under ThreadSanitizer and must print what they print alone.",
    "Coq kernel; the regex translator in props/C20.py; TSan; harness/C20.cpp; a data race outside the modelled pools is found only if TSan observes it in the sampled runs; see DESIGN.md 4/C20",
    "DESIGN.md 4 (C20)")

CLAIMED["C15"] = (
    "Coq proof of refinement of the target-list table to a naming list (all histories) + extracted model/spec run against scripts on the real engine",
    "Theorems C15_*: for every history of spawn / set targetname / rename / remove / $name, $name.size, $name[i] / command fan-out over $name (with handlers that rename, remove or destroy other members) the code-level model of TargetList/TargetComponent/OP_UN_TARGETNAME/ExecCmdMethodCommon equals the specification 'the live objects currently bearing the name, in naming order' (0 -> NULL, 1 -> the object, n -> the group; rename moves, destroy removes, a command reaches every snapshot member still alive exactly once). Field assignment to a group and uses of a stored $name value are refuted (three known findings, replayed on every run). Tied to the engine by differential execution of scripts under ASan.",
    "Coq kernel; extraction; harness/C15.cpp + engine.h; a stored group is specified to keep denoting the objects it held when stored (the code aliases the live list: known findings); see DESIGN.md 4/C15 and 6",
    "DESIGN.md 4 (C15)")
CLAIMED["C16"] = (
    "Coq proof that the response tables are the nearest declaring ancestor for every hierarchy + kernel-checked (vm_compute) comparison of the complete registry dumped from the binary built from the current tree + dispatch sweep",
    "Theorems C16_*: for EVERY class list and declaration list: build_tables = nearest declaring ancestor (a null response hides the ancestors), event numbers are injective on (case-folded name, kind), 1..N without gaps, every spelling resolves case-insensitively, a filtered namespace and an unknown command are rejected for every class, end-to-end invoke = spec_invoke. C16_registry_tables_match_the_model re-proves by computation, on every run, that all 22 x 154 response-table entries, all numbers and the name table dumped from the binary equal the model. ~50000 real dispatch calls (class x spelling x kind x filter mode x entry point) are compared with the extracted specification.",
    "Coq kernel (vm_compute for the registry comparison); the dump printed by harness/C16.cpp and its conversion in props/C16.py; host class family harness/C16_family.h; see DESIGN.md 4/C16",
    "DESIGN.md 4 (C16)")

CLAIMED["C10"] = (
    "Coq proof of the archive codec round trip (byte-exact writer model, reader with fix-up resolution) + byte-for-byte comparison with the real Archiver",
    "Theorems C10_*: for every header and every well-formed typed write sequence (all primitive kinds, Raw, strings, plain/weak pointers that are null, backward, forward or self references, positions, flat objects of four host classes) read (shape items) (write items) = items, with the same pointer identities (a pointer to an object that is never archived reads null); holds for both settings of the stream check and of the version test. The model's write is compared BYTE FOR BYTE with the bytes the real Archiver produces and the values/pointer identities read back are compared with the model's read (boundary values, NaN patterns, long/binary strings, graphs of 30 objects, 200 calls). Not covered: ScriptVariable::Archive, objects nested in object bodies.",
    "Coq kernel; extraction; harness/C10.cpp; strings without NUL, values within their width; see DESIGN.md 4/C10",
    "DESIGN.md 4 (C10)")
CLAIMED["C11"] = (
    "Coq proofs that every truncation and every single substitution at a header/version/tag/size/class-name byte is reported, over stream-check and version-test flags regenerated from Archiver.cpp on every run + exhaustive damage sweep against the real reader",
    "Theorems C11_*: for every archive of the C10 model: every strict prefix gives ReadStreamFail; a substituted byte in the header gives InvalidArchiveHeader, in a version WrongVersion, in any record tag (also inside object bodies) TypeError, in an object size ReadPastEndObject/NotReadEntireDataObject, in a class name InvalidClass/ObjectClassError unless the name still resolves case-insensitively to the same class; the reader consumes the bytes exactly as the writer laid them out. The two decisions the proofs depend on (test the stream after the read; || in the version test) are extracted from Archiver.cpp into coq/C11/Generated.v on every run - reverting either breaks the theorem (and the *_refuted_when_unchecked lemmas show why). Every truncation and 3 (thorough: 8 or 255) values at every such byte of 54+ archives are run against the real reader under ASan.",
    "Coq kernel; the regex translator in props/C11.py; extraction; harness/C11.cpp; damage to payload bytes (pointer indices, string lengths, class count) is outside the property's damage classes and is not claimed (DESIGN.md 8); multi-byte damage is sampled, proved for single damages",
    "DESIGN.md 4 (C11)")
CLAIMED["C14"] = (
    "Coq proof of refinement of the interruption state machine (deadline poll, three catch arms, depth counter, current-thread slot, timer loop) to a closed-form specification, for every configuration and history + extracted model/spec run against the engine over the whole configuration grid",
    "Theorems C14_*: for every configuration (loop protection on/off, each diagnostic stream attached or not, execution limit, nesting limit, clock step) and every history of host calls / frames over abstract programs (work, loops, waits, nested calls, faults, aborts): run = spec_run; under protection a non-yielding thread makes the host call fail with command overflow within limit + 2 clock steps and no host call ever blocks; a call chain deeper than the nesting limit fails with stack overflow; no outcome is a crash whatever streams are attached; after every host call the interpreter depth is 0 and no current thread is set (so waiting threads are still scheduled); with protection off no call fails with overflow. The full grid x 16 scenarios (+ random histories) is run on the real engine with the injected clock advancing per reading; instruction counts come from hook H4.",
    "Coq kernel; extraction; harness/C14.cpp; hooks H1 (clock advancing on every reading) and H4; native stack exhaustion and real time are outside the model; a yielding loop (`while(1) { wait 0 }`) is outside the quantifier; see DESIGN.md 4/C14",
    "DESIGN.md 4 (C14)")

CLAIMED["C02"] = (
    "Coq proof that the bytecode verifier is sound (an accepted program is safe from every entry point for every path and every number of steps), over an instruction table regenerated from the binary built from the current tree on every run + the verifier run on every compiled program + the interpreter probed at every executed instruction (hook H4)",
    "Theorems C02_*: C02_check_sound - if check p H = true then every configuration reachable from any entry point (start, labels, case and catch entries) in any number of steps is safe: it is the annotated one, decoding stays inside the program with all operand bytes, every branch lands on an instruction boundary, every embedded reference (string, command, switch table) exists, the height is never negative, agrees on all paths, stays within the declared stack size and is 0 at every OP_DONE; C02_table_matches_decode / C02_exec_agrees_with_table_view tie the stack-effect table to the instruction model; C02_error_path_preserves_discipline - a script error raised by any field or command opcode leaves code position and stack height where the annotation says (err_defective = [] on the current tree). The opcode numbers, operand sizes and table rows are dumped from the current binary into coq/C02/Generated.v on every run; every accepted program of the generators is verified by the extracted checker and its execution (offset, stack index) is compared with the annotation at every instruction.",
    "Coq kernel; extraction; the optable dump of harness/C02.cpp; hook H4; that the instruction model is the interpreter is sampled (every executed instruction of every generated program is compared with the verified annotation); err_table is hand-written after the catch blocks of ScriptVM::Process; programs come from this unit's own grammar generator; see DESIGN.md 4/C02",
    "DESIGN.md 4 (C02)")
CLAIMED["C05"] = (
    "Coq proof of refinement of the call protocol (parameter binding, label lookup, ScriptPointer registries of result holders under copy/move/destroy, scheduler) to a map call -> optional result, for all histories + extracted model/spec run against real scripts on the engine",
    "Theorems C05_*: run ops = spec_run ops for every history of calls (any argument and parameter lists), copies/moves/destructions of result holders, waits, pauses, kills, thread ends with and without a value, and Reset; parameters are bound in order (missing = NIL, extra ignored); a call to a missing label leaves nothing behind; a synchronous result is the returned value; when a thread ends every holder pending on it receives the value (or NIL), whatever copies were made; a killed thread leaves its holders pending for ever and never gets a result; a delivered result is stable; no history hangs or touches a dead cell; every reachable heap has an exact pointer registry (each registry operation preserves the invariant). Tied to ScriptVM/ScriptThread/ScriptVariable/ScriptPointer by differential execution of generated scripts (argument lists to length 8, 9 value kinds, all schedules) under ASan.",
    "Coq kernel; extraction; harness/C05.cpp + engine.h; hook H1; strings returned by threads are String-typed (a ConstString held by a host record dangles after Reset: host obligation); see DESIGN.md 4/C05",
    "DESIGN.md 4 (C05)")
CLAIMED["C18"] = (
    "Coq proofs of refinement of Container, set/map, arrayset and str (code-level models: raw cells with construction/destruction, bucket chains and rehash, reference-counted string storage) to an abstract sequence / finite map / key list / byte string, for all histories + extracted models/specs run against the real templates with counting element types and colliding keys",
    "Four units. C18con: Container refines a list on every history of its operations (capacity covers contents; constructions = destructions), Resize(0) refuted (known finding). C18set: con::set/con::map refine the finite map for every hash function, no operation fails, enumeration visits each entry once, resize/shrink keep every entry. C18arr: con::arrayset refines the list of keys (ids stable, find/at inverse) for every hash function and every growth step, chain walks terminate; remove() refuted (three known findings replayed on every run). C18str: str refines byte strings with explicit sharing on the safe alphabet (no string observes another's modification), the spec changes only the target; four precondition violations are pinned by _refuted theorems whose witnesses are re-run on the implementation. Each unit: all histories to length 4..6 over a 4-key universe plus random walks to 10^4 ops under ASan.",
    "Coq kernel; extraction; harness/C18*.cpp; hash functions are Section variables; memory safety of the real templates is sampled by ASan; preconditions listed in the evidence assumptions; see DESIGN.md 4/C18",
    "DESIGN.md 4 (C18)")

CLAIMED["C04"] = (
    "Coq proofs that the value-operation tables are total (a value or one typed script error, never anything else) and that the statement machine refines a specification in which an error only skips its own statement; the tables are compared by vm_compute with a dump of all operator results of the binary built from the current tree on every run + differential execution of generated statements",
    "Theorems C04_*: C04_model_table_matches_binary / C04_operator_totality - all 31,949 entries (16 binary operators x 43^2 representative values of every kind, 12 unary operators and casts x 43, index read 43^2, five attribute tables) dumped from the current binary equal the model's tables; 25,213 are typed script errors, none is a foreign exception; every operation yields a value and at most one warning, and the prediction from the kinds alone agrees with the prediction from the values. C04_machine_refines_the_statement_specification (run = spec_run for every program of statements): the operand stack is empty after every statement, an expression leaves exactly one value, a script error never stops the thread or disturbs other statements, only end/delete end the thread. Generated and corpus statements (incl. a host class whose getter, setter and commands throw) are run on the engine under ASan/UBSan and compared with the extracted model: warning class, printed lines, completion, stack index 0 at thread end, a second thread and a sentinel script intact.",
    "Coq kernel (vm_compute for the table comparison); extraction; the optable dump of harness/C04.cpp; hook H4; statement-level agreement, thread interference and all memory-safety observations are sampled; casts the C++ standard leaves undefined and double uses of a pending thread result are not predicted; see DESIGN.md 4/C04",
    "DESIGN.md 4 (C04)")
CLAIMED["C09"] = (
    "Coq proof that save; reset; load yields a state isomorphic to the saved one and that isomorphic states behave alike for every later history + the real engine run twice (uninterrupted / save-reset-load before frame k, every k) with the loaded engine state dumped and compared with the model's",
    "Theorems C09_*: for every well-formed state (reachable states are well-formed: C09_states_between_operations_are_saveable) save and load succeed and the loaded state is isomorphic to the saved one (equal up to renaming of thread and holder identities, dropping unreachable holders and the order of the instance list; timer order and due times, chain order, code positions, variable lists, sharing of arrays, holder contents, clocks are kept exactly); isomorphic states produce the same observations under every later history and stay isomorphic (C09_save_reset_load_is_transparent). The model extends the C06 scheduler with instances, thread chains, nested thread creation and locals of every archivable kind. On the engine: run A uninterrupted, run B_k with save / director.Reset() / load before frame k for every k (all k for short runs), output, wake-up order and final variables compared; after each load the engine's instances, threads and timer list are dumped and compared line by line with the model's loaded state. waittill/notify, pending events, group/level variables and entities are sampled on the engine only.",
    "Coq kernel; extraction; harness/C09.cpp + engine.h; hook H1; host protocol: entities are archived, deleted around Reset and read back (a host that keeps entities across Reset must re-key its target list); loading into a different ScriptContext shifts timed waits (time base not archived: DESIGN.md 6, outside the property's reset); see DESIGN.md 4/C09",
    "DESIGN.md 4 (C09)")

NOT_YET = "no model, theorem and correspondence check has been built for this property yet (work in progress; see DESIGN.md 9 for the order of work)"


def main():
    props = [json.loads(l) for l in open(os.path.join(HERE, "properties.jsonl"))]
    checks, na = [], []
    for p in props:
        cid = p["id"]
        if cid in CLAIMED:
            tech, text, note, ref = CLAIMED[cid]
            checks.append({
                "property_id": cid,
                "quick_cmd": "./check %s --tier quick" % cid,
                "thorough_cmd": "./check %s --tier thorough" % cid,
                "evidence_file": "evidence/%s.json" % cid,
                "replay_cmd_template": "./check %s --replay {path}" % cid,
                "engine": "coq+differential",
                "level_claimed": {"category": "proof", "text": text, "design_ref": ref},
                "level_note": note,
                "technique": tech,
            })
        else:
            na.append({"property_id": cid, "reason": NA.get(cid, NOT_YET)})
    man = {
        "version": 1,
        "setup_cmd": "./setup.sh",
        "hooks": {
            "guard": "MORFUSE_VERIF",
            "enable": "checks compile /repo's sources themselves (lib/vlib.py build_lib / build_harness) with -DMORFUSE_VERIF=1",
            "baseline_off_cmd": "cmake -G Ninja -S /repo -B /repo/_build >/dev/null && cmake --build /repo/_build >/dev/null && ctest --test-dir /repo/_build/tests -j8 --timeout 900",
            "source_commits": HOOK_COMMITS,
            "add_only": True,
        },
        "engines": [{"name": "coq+differential", "path": "check",
                     "serves_properties": sorted(CLAIMED),
                     "kind_free_text": "Coq 8.16 theorems about executable models (coq/), models and specification monitors extracted to OCaml (ocaml/), C++ harnesses against /repo's current tree (harness/), python orchestration (lib/vlib.py, props/)"}],
        "checks": checks,
        "not_applicable": na,
        "notes": "Technique: machine-checked proof in Coq; the model is tied to the code by regenerated tables and by differential execution of the extracted model. See DESIGN.md.",
    }
    with open(os.path.join(HERE, "MANIFEST.json"), "w") as f:
        json.dump(man, f, indent=1)
        f.write("\n")


NA = {}
HOOK_COMMITS = ["5f437e9 verif hook H1: injectable millisecond clock for TimeManager",
                "01c6ecb verif hook H4: interpreter step and end probes (vmStepHook, vmEndHook)"]

if __name__ == "__main__":
    main()
