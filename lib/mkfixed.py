#!/usr/bin/env python3
"""Regenerate the `fixed` list of known_findings.json from /repo's "fix:" commits.
Development-time tool (never run by a check).  PROP maps a fix commit to the property whose
check found it / is responsible for it; a fix commit missing here is an error."""
import json
import os
import subprocess
import sys

HERE = os.path.dirname(os.path.dirname(os.path.abspath(__file__)))
PROP = {
    "b2b64c5": "C18", "091996b": "C18", "eb9c208": "C18", "123abf8": "C11", "9e751f2": "C11", "f3d4eb5": "C01",
    "463e9ba": "C20", "a5f8c57": "C01", "2c9b1d4": "C03", "9ab93b9": "C03", "2212e7e": "C04", "88fa867": "C04",
    "ceb66f5": "C04", "515f2dd": "C05", "1a09a9e": "C14", "95a53b8": "C09", "ae1a912": "C18", "913439b": "C18",
    "b034b9f": "C18", "d63a379": "C18", "c0a3b58": "C18", "ea9b62a": "C09", "e797e3e": "C09", "d818a67": "C03",
    "fef15de": "C04", "2cc0713": "C04", "2ed29b0": "C04", "57b8d9d": "C04", "c24908e": "C16", "d439844": "C20",
    "f315818": "C20", "5d577e5": "C01", "0d80098": "C01", "4bf1e6a": "C01", "e516f4d": "C02", "c0a9f43": "C04",
    "14478d4": "C04", "e570bd7": "C04", "cfe5156": "C03", "8632b3a": "C03", "ad04640": "C03", "e7a22cb": "C03",
    "2400851": "C13", "1b3be9a": "C02", "575bd95": "C09", "ef72647": "C09", "06b6ac2": "C09", "d46a4a8": "C01",
    "14e888f": "C02", "ba5c363": "C18", "09f7016": "C14", "fc27db7": "C07",
    "3d17662": "C01", "d778289": "C04", "e0c8da7": "C04", "ad4561c": "C04", "ddfcf5e": "C01", "f587111": "C03",
    "a96d67a": "C03", "b4eb718": "C04", "9c833c0": "C18", "5909a48": "C03",
    "5ced18f": "C13", "4dc535c": "C07", "95e2358": "C01", "8228a47": "C15", "d494aca": "C15", "8fad902": "C11", "57b6014": "C01", "38111cb": "C05", "76f56ed": "C01", "f3056f7": "C07", "caf06d7": "C09",
}


def main():
    out = subprocess.run(["git", "-C", "/repo", "log", "--reverse", "--format=%h\t%s"], capture_output=True, text=True, check=True).stdout
    fixed, missing = [], []
    for line in out.splitlines():
        h, s = line.split("\t", 1)
        if not s.startswith("fix:"):
            continue
        if h not in PROP:
            missing.append(line)
            continue
        fixed.append("fixed: property=%s %s %s" % (PROP[h], h, s[4:].strip()))
    if missing:
        sys.exit("fix commits without a property in lib/mkfixed.py:\n" + "\n".join(missing))
    p = os.path.join(HERE, "known_findings.json")
    d = json.load(open(p))
    d["fixed"] = fixed
    with open(p, "w") as f:
        json.dump(d, f, indent=1)
        f.write("\n")
    print(len(fixed), "fixed entries")


if __name__ == "__main__":
    main()
