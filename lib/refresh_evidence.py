#!/usr/bin/env python3
"""run the quick command of every claimed check on the current tree and validate the evidence files"""
import json, os, subprocess, sys, time
HERE = os.path.dirname(os.path.dirname(os.path.abspath(__file__)))
man = json.load(open(os.path.join(HERE, "MANIFEST.json")))
only = sys.argv[1:]
bad = []
for c in man["checks"]:
    cid = c["property_id"]
    if only and cid not in only:
        continue
    t = time.time()
    p = subprocess.run(c["quick_cmd"], shell=True, cwd=HERE, capture_output=True, text=True)
    last = [l for l in p.stdout.splitlines() if l.startswith(("OK", "VIOLATION"))]
    ev = json.load(open(os.path.join(HERE, c["evidence_file"])))
    cov = ev["coverage"]
    ok = p.returncode == 0 and cov.get("obligations", 0) >= 1 and cov.get("discharged") == cov.get("obligations") and ev["level"] == "proof"
    print("%s rc=%d %.0fs obligations=%s/%s %s" % (cid, p.returncode, time.time() - t, cov.get("discharged"), cov.get("obligations"), (last or [""])[-1][:120]), flush=True)
    if not ok:
        bad.append(cid)
print("BAD:", bad)
sys.exit(1 if bad else 0)
