#!/bin/sh
# verify_seed.sh <Cnn> : confirm a seeded change in the scratch worktree /tmp/wt/<Cnn>:
#  with the change: builds, 24/24 tests pass, demo fails; without it: demo passes.
# prints a JSON summary on the last line.
id=$1; wt=/tmp/wt/$id
cd $wt || exit 2
git checkout -q -- src include 2>/dev/null
git checkout -q --detach $(git -C /repo rev-parse HEAD) 2>/dev/null
git apply demo/patch.diff || { echo '{"error":"patch does not apply"}'; exit 2; }
cmake -G Ninja -B _build -DCMAKE_BUILD_TYPE=RelWithDebInfo >/dev/null 2>&1
cmake --build _build -j16 >/dev/null 2>&1 || { echo '{"error":"build failed with patch"}'; exit 2; }
ctest --test-dir _build/tests -j8 --timeout 900 2>&1 | grep -E "tests passed|tests failed" > /tmp/wt/$id.ctest
sh demo/run.sh >/tmp/wt/$id.demo_mut 2>&1; mut=$?
git checkout -q -- src include
cmake --build _build -j16 >/dev/null 2>&1
sh demo/run.sh >/tmp/wt/$id.demo_orig 2>&1; orig=$?
git apply demo/patch.diff
echo "{\"ctest_with_patch\":\"$(cat /tmp/wt/$id.ctest | tr -d '\n')\",\"demo_exit_with_patch\":$mut,\"demo_exit_original\":$orig}"
