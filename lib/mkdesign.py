#!/usr/bin/env python3
"""Rewrite the generated regions of DESIGN.md (between <!-- BEGIN:x --> and <!-- END:x -->):
fixed   - table of repaired defects from known_findings.json
open    - table of recorded, unrepaired findings
built   - per-property table from MANIFEST.json and the evidence files (theorems, evaluations, time)
Development-time tool."""
import json
import os
import re

HERE = os.path.dirname(os.path.dirname(os.path.abspath(__file__)))


def region(text, name, body):
    a, b = "<!-- BEGIN:%s -->" % name, "<!-- END:%s -->" % name
    if a not in text:
        raise SystemExit("DESIGN.md has no region " + name)
    i, j = text.index(a) + len(a), text.index(b)
    return text[:i] + "\n" + body + "\n" + text[j:]


def main():
    kf = json.load(open(os.path.join(HERE, "known_findings.json")))
    rows = ["| property | commit | what was wrong (commit subject) |", "|---|---|---|"]
    for f in sorted(kf["fixed"], key=lambda x: x.split()[1]):
        m = re.match(r"fixed: property=(\S+) (\S+) (.*)", f)
        rows.append("| %s | %s | %s |" % (m.group(1), m.group(2), m.group(3).replace("|", "\\|")))
    fixed = "\n".join(rows)
    rows = ["| property | signature | what fails |", "|---|---|---|"]
    for f in kf["findings"]:
        rows.append("| %s | `%s` | %s |" % (f["property"], f["signature"], f["what"].replace("|", "\\|")))
    opened = "\n".join(rows)
    man = json.load(open(os.path.join(HERE, "MANIFEST.json")))
    rows = ["| property | theorems (all closed under the global context) | quick: evaluations / distinct non-trivial / wall | seeded change caught |", "|---|---|---|---|"]
    for c in man["checks"]:
        cid = c["property_id"]
        try:
            ev = json.load(open(os.path.join(HERE, c["evidence_file"])))
            cov = ev["coverage"]
            q = "%s / %s / %ss (%s tier)" % (cov.get("evaluations"), cov.get("distinct_nontrivial"), int(ev.get("wall_s", 0) or 0), ev.get("tier", "?"))
            th = "%s/%s" % (cov.get("discharged"), cov.get("obligations"))
        except Exception as ex:
            q, th = "(no evidence: %s)" % ex, "?"
        seed = "yes (seeded/%s)" % cid if os.path.isdir(os.path.join(HERE, "seeded", cid)) else "-"
        rows.append("| %s | %s | %s | %s |" % (cid, th, q, seed))
    for n in man["not_applicable"]:
        rows.append("| %s | not claimed: %s | | |" % (n["property_id"], n["reason"][:80]))
    built = "\n".join(rows)
    p = os.path.join(HERE, "DESIGN.md")
    t = open(p).read()
    t = region(t, "fixed", fixed)
    t = region(t, "open", opened)
    t = region(t, "built", built)
    open(p, "w").write(t)
    print("DESIGN.md regions rewritten")


if __name__ == "__main__":
    main()
